"""helpers shared by the families of group gG (ser, val, storeval): value trees, the token language of harness/cifio.h,
an independent parser of the CIF number syntax, size computation of the serialised form, random generators.

Tree representation:  ('U',) ('N',) ('C', q, units) ('M', q, units) ('L', [tree…]) ('T', [(keyunits, tree)…])
`units` are lists of UTF-16 code units.
"""
import os, re, sys, unicodedata
sys.path.insert(0, os.path.dirname(os.path.abspath(__file__)))
from common import hexs, unhexs
import cifdesc

NUMB_RE = re.compile(r"^([+-]?)([0-9]*)(\.([0-9]*))?([eE]([+-]?)([0-9]+))?(\(([0-9]+)\))?$")


def units_of(s):
    out = []
    for ch in s:
        u = ord(ch)
        if u > 0xFFFF:
            u -= 0x10000
            out += [0xD800 + (u >> 10), 0xDC00 + (u & 0x3FF)]
        else:
            out.append(u)
    return out


def str_of(units):
    return "".join(chr(u) for u in units)


def parse_numb(units):
    """CIF number syntax, written from the documentation of cif_value_parse_numb (cif.h): optional sign, digits with an
    optional decimal point (at least one digit), optional exponent, optional parenthesised uncertainty.
    Returns (neg, digits-string, su-digits-string|None, scale) or None."""
    try:
        s = "".join(chr(u) for u in units)
    except ValueError:
        return None
    if any(ord(c) > 127 for c in s):
        return None
    m = NUMB_RE.match(s)
    if not m:
        return None
    sign, ip, point, fp, ex, esign, edig, su_all, su = m.group(1), m.group(2), m.group(3), m.group(4), m.group(5), m.group(6), m.group(7), m.group(8), m.group(9)
    fp = fp or ""
    if not ip and not fp:
        return None
    digits = (ip + fp).lstrip("0") or "0"
    scale = len(fp)
    if ex:
        e = int(edig)
        if e >= 214748363:       # the library stops accumulating there; such exponents are not generated
            return None
        scale -= -e if esign == "-" else e
    sud = None
    if su_all:
        sud = su.lstrip("0") or "0"
    return (sign == "-", digits, sud, scale)


# ---- token language <-> trees ---------------------------------------------------------------------------------

def parse_tokens(toks, pos=0):
    """one value starting at toks[pos]; returns (tree, next position)"""
    t = toks[pos]
    if t == "U":
        return ("U",), pos + 1
    if t == "N":
        return ("N",), pos + 1
    if t[0] in "CM" and t[2] == ":":
        return (t[0], int(t[1]), unhexs(t[3:])), pos + 1
    if t == "[":
        out = []
        pos += 1
        while toks[pos] != "]":
            v, pos = parse_tokens(toks, pos)
            out.append(v)
        return ("L", out), pos + 1
    if t == "{":
        out = []
        pos += 1
        while toks[pos] != "}":
            k = unhexs(toks[pos][2:])
            v, pos = parse_tokens(toks, pos + 1)
            out.append((k, v))
        return ("T", out), pos + 1
    raise ValueError("bad token " + t)


def tokens_of(tree):
    k = tree[0]
    if k in "UN":
        return [k]
    if k in "CM":
        return ["%s%d:%s" % (k, tree[1], hexs(tree[2]))]
    if k == "L":
        out = ["["]
        for v in tree[1]:
            out += tokens_of(v)
        return out + ["]"]
    out = ["{"]
    for key, v in tree[1]:
        out += ["K:" + hexs(key)] + tokens_of(v)
    return out + ["}"]


def show(tree, fields=True):
    """the dump text of harness/x_gg.h (fields=True: numbers with their fields) or of cifio.h (fields=False)"""
    k = tree[0]
    if k in "UN":
        return k
    if k == "C":
        return "C%d:%s" % (tree[1], hexs(tree[2]))
    if k == "M":
        if not fields:
            return "M%d:%s" % (tree[1], hexs(tree[2]))
        p = parse_numb(tree[2])
        if p is None:
            return "M%d:%s/?" % (tree[1], hexs(tree[2]))
        return "M%d:%s/%s/%s/%s/%d" % (tree[1], hexs(tree[2]), "-" if p[0] else "+", p[1], "~" if p[2] is None else p[2], p[3])
    if k == "L":
        return "[" + "".join(" " + show(v, fields) for v in tree[1]) + " ]"
    return "{" + "".join(" K:%s %s" % (hexs(key), show(v, fields)) for key, v in tree[1]) + " }"


def nfc(units):
    return units_of(unicodedata.normalize("NFC", str_of(units)))


def ser_len(tree):
    """byte length of the serialised form, from the format description in value.c (kind 4, size_t 8, ssize_t 8,
    2 per unit, quoted flag 4, entry flag 4)"""
    k = tree[0]
    if k in "UN":
        return 4
    if k in "CM":
        return 4 + 8 + 2 * len(tree[2]) + 4
    if k == "L":
        return 4 + 8 + sum(ser_len(v) for v in tree[1])
    return 4 + sum(4 + 8 + 2 * len(nfc(key)) + 8 + 2 * len(key) + ser_len(v) for key, v in tree[1]) + 4


def depth(tree):
    if tree[0] == "L":
        return 1 + max([depth(v) for v in tree[1]] + [0])
    if tree[0] == "T":
        return 1 + max([depth(v) for _, v in tree[1]] + [0])
    return 0


# ---- random material ----------------------------------------------------------------------------------------------

BMP_POOL = [0x61, 0x62, 0x7A, 0x41, 0x30, 0x39, 0x20, 0x09, 0x0A, 0x27, 0x22, 0x3B, 0x5C, 0x5B, 0x5D, 0x7B, 0x7D, 0x23, 0x24,
            0x5F, 0x3F, 0x2E, 0xE9, 0x4E2D, 0xFFFD, 0x1, 0x7F, 0xA0, 0x3B1, 0xFFFC, 0xD7FF, 0xE000]
SUPP_POOL = [0x1F600, 0x10000, 0x10FFFD, 0x2F800]
STRING_LENGTHS = [0, 0, 1, 1, 2, 3, 5, 8, 16, 31, 32, 33, 100, 240, 247, 248, 249, 255, 256, 257, 372, 373, 374, 390, 400, 511, 512, 513, 599, 600]


def rand_units(r, n, ascii_only=False):
    out = []
    while len(out) < n:
        if not ascii_only and n - len(out) >= 2 and r.random() < 0.08:
            c = r.choice(SUPP_POOL) - 0x10000
            out += [0xD800 + (c >> 10), 0xDC00 + (c & 0x3FF)]
        elif ascii_only or r.random() < 0.6:
            out.append(r.choice([0x61, 0x62, 0x63, 0x78, 0x79, 0x31, 0x32, 0x2D, 0x2E, 0x5F]))
        else:
            out.append(r.choice(BMP_POOL))
    return out


def rand_string(r, maxlen=600):
    n = r.choice([x for x in STRING_LENGTHS if x <= maxlen])
    if r.random() < 0.2:
        n = min(maxlen, max(0, n + r.randint(-2, 2)))
    return rand_units(r, n)


def rand_numb_text(r):
    """a number in one of the accepted spellings"""
    if r.random() < 0.25:
        return r.choice(cifdesc.NUMBERS)
    sign = r.choice(["", "", "+", "-"])
    ip = r.choice(["", "0", "00", "7", "12", "120", "000123", "9007199254740993", "1" + "0" * r.randint(1, 30)])
    form = r.randint(0, 3)
    if form == 0:
        body = ip or "0"
    elif form == 1:
        body = (ip or "0") + "."
    else:
        fp = r.choice(["0", "5", "25", "000", "0001", "50", "123456789012345678", "0" * r.randint(1, 25) + "1"])
        body = ip + "." + fp
    ex = ""
    if r.random() < 0.4:
        ex = r.choice("eE") + r.choice(["", "+", "-"]) + r.choice(["0", "1", "5", "05", "10", "22", "300", "308", "309", "400", "99999", "0000000012"])
    su = ""
    if r.random() < 0.35:
        su = "(" + r.choice(["0", "1", "3", "12", "007", "00", "99", "123456"]) + ")"
    return sign + body + ex + su


def rand_leaf(r, maxlen=600, well_formed=False):
    k = r.random()
    if k < 0.12:
        return ("U",)
    if k < 0.2:
        return ("N",)
    if k < 0.42:
        return ("M", 1 if r.random() < 0.2 else 0, units_of(rand_numb_text(r)))
    s = rand_string(r, maxlen)
    if well_formed:
        s = [u for u in s if u not in (0x1, 0x7F, 0xFFFC)] if r.random() < 0.5 else s
    q = 1 if r.random() < 0.65 else 0
    if q == 0 and not cifdesc.unquotable(str_of_safe(s)):
        q = 1
    return ("C", q, s)


def str_of_safe(units):
    # for cifdesc.unquotable only (surrogate pairs are irrelevant to the rules it checks)
    return "".join(chr(u) for u in units)


KEY_POOL = ["", "a", "b", "A", "key", "k 1", " lead", "trail ", "'q'", "\u00e9", "\u4e2d", "a;b", "x" * 40, "_n", "k:v", "\t"]
# keys whose NFC form differs from the spelling (the entry then holds two different strings: key and key_orig)
UNSTABLE_KEYS = ["e\u0301", "\u212b", "A\u030a", "x\u0323\u0307", "\u1e0b\u0323"]


def rand_tree(r, depth_left, widths=(0, 1, 2, 3, 4, 5, 8, 9, 10, 11, 15, 16), maxlen=600, leaf=rand_leaf, unstable_keys=False):
    k = r.random()
    if depth_left > 0 and k < 0.45:
        n = r.choice(widths)
        if r.random() < 0.5:
            return ("L", [rand_tree(r, depth_left - 1 if r.random() < 0.5 else 0, (0, 1, 2, 3, 4), maxlen, leaf, unstable_keys) for _ in range(n)])
        keys = list(KEY_POOL) + (list(UNSTABLE_KEYS) if unstable_keys else [])
        r.shuffle(keys)
        chosen, seen = [], set()
        for key in keys:
            nk = unicodedata.normalize("NFC", key)
            if nk not in seen and len(chosen) < n:
                seen.add(nk)
                chosen.append(key)
        return ("T", [(units_of(key), rand_tree(r, depth_left - 1 if r.random() < 0.5 else 0, (0, 1, 2, 3), maxlen, leaf, unstable_keys)) for key in chosen])
    return leaf(r, maxlen)


def norm_tokens(tree):
    """`@<orig>=<nfc>` tokens for every table key of the tree whose NFC form differs from its spelling (the model's key
    normaliser is given by these pairs; any other key is its own normal form)"""
    out = []

    def walk(t):
        if t[0] == "L":
            for v in t[1]:
                walk(v)
        elif t[0] == "T":
            for key, v in t[1]:
                nk = nfc(key)
                if nk != key:
                    tok = "@%s=%s" % (hexs(key), hexs(nk))
                    if tok not in out:
                        out.append(tok)
                walk(v)
    walk(tree)
    return out


def value_tokens(tree):
    """request tokens of a value: normalisation pairs first, then the value"""
    return norm_tokens(tree) + tokens_of(tree)


def chain(r, depth_wanted, leaf):
    """a value nested `depth_wanted` levels deep (lists and tables alternating at random)"""
    t = leaf
    for _ in range(depth_wanted):
        if r.random() < 0.5:
            t = ("L", [("U",)] * r.randint(0, 2) + [t])
        else:
            t = ("T", [(units_of(r.choice(KEY_POOL + UNSTABLE_KEYS)), t)])
    return t


def pad_to(r, tree, target):
    """a list containing `tree` and filler strings so that the serialised size is exactly `target` when possible"""
    elems = [tree]
    base = 4 + 8 + ser_len(tree)
    room = target - base
    # a character element costs 16 + 2n bytes
    while room >= 16 + 16 + 2 * 600:
        n = r.randint(100, 600)
        elems.append(("C", 1, rand_units(r, n, ascii_only=True)))
        room -= 16 + 2 * n
    if room >= 16 and room % 2 == 0:
        elems.append(("C", 1, rand_units(r, (room - 16) // 2, ascii_only=True)))
    r.shuffle(elems)
    return ("L", elems)
