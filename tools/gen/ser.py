"""family `ser` (C07): the binary serialisation of values — serialise, release the original, deserialise, dump.

Oracle (implementation only): the dump that comes back is the dump of the value described by the request — same kinds,
texts, quoted flags, element order, keys in their original spelling, and for numbers the fields an independent parser of
the number syntax (ggvals.parse_numb) computes from the text; the reported length is the length the documented format
prescribes for that value (so that a field written twice or not at all is noticed even if the reader compensates)."""
import os, sys
sys.path.insert(0, os.path.dirname(os.path.abspath(__file__)))
from common import rng, hexs
import ggvals as G

FAMILY = "ser"
HARNESS = {"source": "x_ser.c", "exclude_objs": ["value"], "extra_sources": ["x_gg.h", "cifio.h"],
           "cflags": ["-DVERIF_CASE_SECONDS=2"], "leak_clean": True}
RULE = ("random nested values (depth <= 6 quick / <= 30 thorough; list and table widths around the capacity steps 4, 8, 10, 15; "
        "strings of 0-600 units incl. supplementary characters; numbers in every accepted spelling), values padded so that the "
        "serialised size lands on and around 512 * 1.5^k, single writes needing more than 1.5 x the capacity, plus direct calls "
        "of cif_buf_write on (capacity, position, len) triples; non-trivial = a list or table, or a growth-loop call that grows")

GROWTH_POINTS = [512, 768, 1152, 1728, 2592, 3888, 5832, 8748, 13122, 19683, 29524, 44286]


def generate(seed, tier):
    r = rng(seed, FAMILY)
    quick = tier == "quick"
    yield "ser sizes"
    # the growth loop on its own: capacities from 2 up, positions below / at / above capacity, lengths around the 1.5^k points
    caps = [2, 3, 4, 5, 7, 8, 100, 511, 512, 513]
    for _ in range(300 if quick else 6000):
        cap = r.choice(caps)
        pos = r.choice([0, 1, cap - 1, cap, cap + 1, (cap * 3) // 2, (cap * 3) // 2 + 1, cap * 2, r.randint(0, 6000)])
        pos = max(0, pos)
        k = r.choice([0, 2, 4, cap, 2 * cap, r.choice(GROWTH_POINTS), r.choice(GROWTH_POINTS) + 2, r.choice(GROWTH_POINTS) - 2, r.randint(0, 40000)])
        tgt = max(0, k - pos) if r.random() < 0.5 else k
        tgt -= tgt % 2
        yield "ser grow %d %d %d" % (cap, pos, tgt)
    # values
    maxdepth = 6 if quick else 30
    for i in range(2000 if quick else 30000):
        mode = r.random()
        if mode < 0.35:
            t = G.rand_tree(r, r.randint(1, 4), maxlen=r.choice([8, 40, 600]), unstable_keys=True)
        elif mode < 0.5:
            t = G.chain(r, r.randint(1, maxdepth), G.rand_leaf(r, 40))
        elif mode < 0.85:
            inner = G.rand_tree(r, r.randint(0, 2), widths=(0, 1, 2, 3), maxlen=40)
            target = r.choice(GROWTH_POINTS[:6 if quick else 12]) + r.choice([-4, -2, 0, 0, 2, 4, 6])
            t = G.pad_to(r, inner, target)
        elif mode < 0.93:
            # one write much larger than 1.5 x the capacity
            t = ("L", [("C", 1, G.rand_units(r, r.choice([373, 374, 390, 400, 600, 1500, 5000]), ascii_only=True))])
        else:
            t = G.rand_leaf(r, 600)
        yield "ser v " + " ".join(G.value_tokens(t))


def _tree(req):
    toks = [x for x in req.split()[2:] if not x.startswith("@")]
    t, pos = G.parse_tokens(toks, 0)
    return t


def nontrivial(req, impl):
    t = req.split()
    if t[1] == "v":
        return any(x in ("[", "{") for x in t[2:])
    if t[1] == "grow":
        return int(t[3]) + int(t[4]) > int(t[2])
    return True


def classify(req, impl):
    t = req.split()
    if t[1] != "v":
        return t[1]
    tree = _tree(req)
    n = G.ser_len(tree)
    d = G.depth(tree)
    size = "<=512" if n <= 512 else ("<=768" if n <= 768 else ("<=5832" if n <= 5832 else ">5832"))
    return "value depth%s size%s" % ("0" if d == 0 else ("1-3" if d <= 3 else ("4-6" if d <= 6 else ">6")), size)


def oracle(req, impl):
    t = req.split()
    a = impl.split(" ")
    if a[0] != "sr":
        return None                       # crashes / time-outs are judged generically
    if t[1] == "sizes":
        return None
    if t[1] == "grow":
        cap, pos, ln = int(t[2]), int(t[3]), int(t[4])
        want = "sr grow rc=0 pos=%d limit=%d" % (pos + ln, pos + ln)
        return None if impl == want else "cif_buf_write(capacity %d, position %d, len %d): expected '%s'" % (cap, pos, ln, want)
    tree = _tree(req)
    want = "sr rc=0 len=%d %s" % (G.ser_len(tree), G.show(tree))
    if impl != want:
        if impl.split(" ")[:2] == want.split(" ")[:2] and impl.split(" ")[3:] == want.split(" ")[3:]:
            return "serialised length differs from the documented format: got %s, format prescribes %s" % (impl.split(" ")[2], want.split(" ")[2])
        return "value read back from its serialised form differs from the value serialised (expected %s)" % want[:300]
    return None


def shrink(req):
    """structural shrinking of the value: drop elements / entries, replace sub-values by U, shorten strings"""
    t = req.split()
    if t[1] != "v":
        return
    tree = _tree(req)

    def variants(x):
        k = x[0]
        if k == "L":
            for i in range(len(x[1])):
                yield ("L", x[1][:i] + x[1][i + 1:])
            for i in range(len(x[1])):
                for v in variants(x[1][i]):
                    yield ("L", x[1][:i] + [v] + x[1][i + 1:])
        elif k == "T":
            for i in range(len(x[1])):
                yield ("T", x[1][:i] + x[1][i + 1:])
            for i in range(len(x[1])):
                for v in variants(x[1][i][1]):
                    yield ("T", x[1][:i] + [(x[1][i][0], v)] + x[1][i + 1:])
        elif k == "C" and len(x[2]) > 0:
            yield ("C", x[1], x[2][:len(x[2]) // 2])
            yield ("C", x[1], x[2][:-1])
        elif k == "M":
            yield ("U",)
    for n, v in enumerate(variants(tree)):
        if n >= 30:
            break                      # a failing case may cost seconds (time-out): keep the search short
        yield "ser v " + " ".join(G.value_tokens(v))


def finding_class(req, impl, model, why):
    return None
