"""
translate_globals.py — Gen/GlobalState.lean: every call site, in src/*.c of the working tree, of a C-library / ICU / SQLite
function that reads or changes PROCESS-WIDE state (numeric locale, floating-point environment, environment variables, signal
dispositions, random seed, working directory / umask, exit handlers, library-global configuration of ICU and SQLite), with the
library function that contains the call and, for setlocale, its second argument.  Property C16 ("calls leave process-wide state
as they found it") proves the locale protocol of exactly the functions listed here and relies on the list for the rest:
Props/C16.lean states (by `decide`) that the generated list equals the set the hand-written model covers, so a new call site
anywhere in the library breaks the build of C16 instead of silently escaping the model.
"""
import os, re

REPO = os.environ.get("VERIF_REPO", "/repo")


class TranslateError(Exception):
    pass


QUERIES = ["fegetround", "fegetenv", "fetestexcept", "fegetexceptflag", "getenv", "uloc_getDefault", "ucnv_getDefaultName"]
SETTERS = ["setlocale", "uselocale", "fesetround", "fesetenv", "feholdexcept", "feupdateenv", "feclearexcept", "feraiseexcept",
           "fesetexceptflag", "srand", "srandom", "srand48", "setenv", "unsetenv", "putenv", "clearenv", "signal", "sigaction",
           "umask", "chdir", "fchdir", "atexit", "at_quick_exit", "exit", "_exit", "abort", "tzset", "setbuf", "setvbuf", "freopen",
           "uloc_setDefault", "ucnv_setDefaultName", "u_setDataDirectory", "u_setMemoryFunctions", "u_cleanup", "u_init",
           "sqlite3_config", "sqlite3_shutdown", "sqlite3_initialize", "sqlite3_enable_shared_cache", "sqlite3_soft_heap_limit64"]


def _strip(t):
    t = re.sub(r"/\*.*?\*/", lambda m: re.sub(r"[^\n]", " ", m.group(0)), t, flags=re.S)
    t = re.sub(r"//[^\n]*", "", t)
    return re.sub(r'"(?:\\.|[^"\\])*"', lambda m: '"' + "_" * (len(m.group(0)) - 2) + '"', t) if False else t


def _functions(text):
    """[(name, start, end)] of the top-level function definitions (brace matched)"""
    out = []
    depth, i, n = 0, 0, len(text)
    last_semi = 0
    while i < n:
        c = text[i]
        if c == "{":
            if depth == 0:
                head = text[last_semi:i]
                m = re.search(r"(\w+)\s*\([^{};]*\)\s*$", head)
                name = m.group(1) if m else None
                start = i
            depth += 1
        elif c == "}":
            depth -= 1
            if depth == 0:
                if name:
                    out.append((name, start, i))
                last_semi = i + 1
        elif c == ";" and depth == 0:
            last_semi = i + 1
        elif c == '"' or c == "'":
            q = c; i += 1
            while i < n and text[i] != q:
                i += 2 if text[i] == "\\" else 1
        i += 1
    return out


def _nat(s):
    return "[" + ", ".join(str(ord(c)) for c in s) + "]"


def gen_GlobalState(repo):
    src = os.path.join(repo, "src")
    sites = []
    for f in sorted(os.listdir(src)):
        if not f.endswith(".c"):
            continue
        text = _strip(open(os.path.join(src, f), encoding="utf-8", errors="replace").read())
        # the C++ linkage wrapper is not a block of the C program
        text = re.sub(r'#ifdef __cplusplus\s*\n\s*extern "C" \{\s*\n#endif', lambda m: re.sub(r"[^\n]", " ", m.group(0)), text)
        text = re.sub(r'#ifdef __cplusplus\s*\n\s*\}\s*\n#endif', lambda m: re.sub(r"[^\n]", " ", m.group(0)), text)
        funs = _functions(text)
        for callee in QUERIES + SETTERS:
            for m in re.finditer(r"(?<![\w.>])%s\s*\(" % re.escape(callee), text):
                fn = [name for (name, a, b) in funs if a <= m.start() <= b]
                if not fn:
                    # a prototype / declaration at file level is not a call
                    line = text[text.rfind("\n", 0, m.start()) + 1:text.find("\n", m.end())]
                    if re.match(r"\s*(extern\s+)?[\w\s\*]+\b%s\s*\(" % callee, line) and line.rstrip().endswith(";"):
                        continue
                    raise TranslateError("%s: call of %s outside any function body: %r" % (f, callee, line.strip()[:80]))
                # arguments (balanced parentheses)
                i, depth = m.end(), 1
                while i < len(text) and depth:
                    depth += (text[i] == "(") - (text[i] == ")"); i += 1
                args = re.sub(r"\s+", " ", text[m.end():i - 1]).strip()
                sites.append((f, fn[0], callee, args, callee in SETTERS))
    # headers must not hide calls in macros
    for d in ("src", "src/internal"):
        for f in sorted(os.listdir(os.path.join(repo, d))):
            if f.endswith(".h"):
                t = _strip(open(os.path.join(repo, d, f), encoding="utf-8", errors="replace").read())
                for callee in QUERIES + SETTERS:
                    if re.search(r"(?<![\w.>])%s\s*\(" % re.escape(callee), t):
                        raise TranslateError("%s/%s mentions %s( : a macro may hide a call site" % (d, f, callee))
    L = ["/-",
         "  GENERATED by tools/translate_globals.py from /repo's working tree — do not edit.",
         "  Source: src/*.c — every call of a function that reads (isSetter = false) or can change (isSetter = true) process-wide",
         "  state; names as lists of ASCII codes (see the comments).  Searched names: " + ", ".join(QUERIES + SETTERS),
         "-/", "", "namespace CifModel.Gen.GlobalState", "",
         "structure Site where",
         "  file : List Nat",
         "  function : List Nat       -- the library function whose body contains the call",
         "  callee : List Nat",
         "  args : List Nat           -- argument text, whitespace normalised",
         "  isSetter : Bool",
         "deriving DecidableEq, Repr", "",
         "def sites : List Site := ["]
    rows = []
    for (f, fn, callee, args, st) in sites:
        rows.append("  -- %s: %s: %s(%s)\n  { file := %s, function := %s, callee := %s, args := %s, isSetter := %s }" % (
            f, fn, callee, args, _nat(f), _nat(fn), _nat(callee), _nat(args), "true" if st else "false"))
    L.append(",\n".join(rows))
    L += ["]", "", "end CifModel.Gen.GlobalState"]
    return "\n".join(L) + "\n"


GENERATORS = {"GlobalState": gen_GlobalState}
