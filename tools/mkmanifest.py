#!/usr/bin/env python3
"""regenerates MANIFEST.json from tools/props/*.py (claimed properties) and properties.jsonl (the rest)"""
import json, os, importlib.util, subprocess
HERE = os.path.dirname(os.path.abspath(__file__)); VERIF = os.path.dirname(HERE)


def load(p):
    spec = importlib.util.spec_from_file_location("m", p); m = importlib.util.module_from_spec(spec); spec.loader.exec_module(m); return m


props = [json.loads(l) for l in open(os.path.join(VERIF, "properties.jsonl"))]
checks, na = [], []
for p in props:
    pid = p["id"]
    cfgp = os.path.join(HERE, "props", pid + ".py")
    cfg = load(cfgp) if os.path.exists(cfgp) else None
    if cfg is None or getattr(cfg, "NOT_CLAIMED", None):
        na.append({"property_id": pid, "reason": getattr(cfg, "NOT_CLAIMED", None) or
                   "check not built yet (framework under construction); it will be claimed once its Lean theorems and correspondence run"})
        continue
    checks.append({
        "property_id": pid,
        "quick_cmd": "python3 tools/check.py %s --tier quick" % pid,
        "thorough_cmd": "python3 tools/check.py %s --tier thorough" % pid,
        "evidence_file": "evidence/%s.json" % pid,
        "replay_cmd_template": "python3 tools/check.py %s --replay {path}" % pid,
        "engine": "lean4-proof+correspondence",
        "level_claimed": {"category": getattr(cfg, "LEVEL", "proof"), "text": cfg.LEVEL_TEXT, "design_ref": "DESIGN.md section 5, " + pid},
        "level_note": cfg.LEVEL_NOTE,
        "technique": cfg.TECHNIQUE,
    })
try:
    commits = subprocess.run(["git", "-C", "/repo", "log", "--format=%h %s", "bd55f67..HEAD"], capture_output=True, text=True).stdout.splitlines()
except Exception:
    commits = []
man = {
    "version": 1,
    "setup_cmd": "python3 tools/check.py --setup",
    "hooks": {
        "guard": "CIF_API_VERIF",
        "enable": "no hook is compiled into /repo: the executors in /verif/harness compile /repo/src/*.c from the working tree "
                  "(gcc -fsanitize=address,undefined) and #include library .c files where file-static functions are needed",
        "baseline_off_cmd": "sh tools/baseline.sh",
        "source_commits": [],
        "add_only": True,
    },
    "engines": [{"name": "lean4-proof+correspondence", "path": "tools/check.py",
                 "serves_properties": [c["property_id"] for c in checks],
                 "kind_free_text": "Lean 4 theorems about an executable model (lake project lean/), data regenerated from /repo by "
                                   "tools/translate.py on every run, algorithms tied by differential execution of the model driver "
                                   "(lean_exe cifmodel) and the real code (harness/x_*.c under ASan/UBSan) on generated request streams"}],
    "checks": checks,
    "not_applicable": na,
    "notes": "fix: commits applied to /repo (unguarded repairs of genuine defects; see known_findings.json): " + "; ".join(commits),
}
json.dump(man, open(os.path.join(VERIF, "MANIFEST.json"), "w"), indent=1)
print("claimed:", [c["property_id"] for c in checks], "not claimed:", len(na))
