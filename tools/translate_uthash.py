"""
translate_uthash.py — Gen/Uthash.lean: the constants of uthash (uthash/uthash.h in the working tree) that decide WHEN the
hash table allocates, as used by the map ladders of property C17 (Model/LadderMap.lean):

  * HASH_INITIAL_NUM_BUCKETS(_LOG2), HASH_BKT_CAPACITY_THRESH;
  * the hash function in effect (HASH_FCN must be HASH_JEN: nothing in the library defines HASH_FUNCTION), its two seed
    constants and the nine (direction, amount) shifts of HASH_JEN_MIX, in order;
  * textual fingerprints of the places whose logic the model transcribes by hand (the expansion test of HASH_ADD_TO_BKT,
    the ideal-chain-length formula and the ineffective-expansion rule of HASH_EXPAND_BUCKETS): if one of them no longer
    reads as expected the translation FAILS, so a changed uthash cannot silently keep the old model.
"""
import os, re

REPO = os.environ.get("VERIF_REPO", "/repo")


class TranslateError(Exception):
    pass


def _read(p):
    with open(p, encoding="utf-8", errors="replace") as f:
        return f.read()


def _num(text, name):
    m = re.search(r"^[ \t]*#[ \t]*define[ \t]+%s[ \t]+(0[xX][0-9a-fA-F]+|\d+)[uUlL]*\b" % re.escape(name), text, re.M)
    if not m:
        raise TranslateError("uthash.h: #define %s <number> not found" % name)
    return int(m.group(1), 0)


def _squash(t):
    return re.sub(r"[\s\\]+", "", t)


def gen_Uthash(repo):
    path = os.path.join(repo, "uthash", "uthash.h")
    if not os.path.exists(path):
        raise TranslateError("uthash/uthash.h not found")
    text = _read(path)
    nb = _num(text, "HASH_INITIAL_NUM_BUCKETS")
    lg = _num(text, "HASH_INITIAL_NUM_BUCKETS_LOG2")
    th = _num(text, "HASH_BKT_CAPACITY_THRESH")
    if nb != 2 ** lg:
        raise TranslateError("HASH_INITIAL_NUM_BUCKETS (%d) is not 2^HASH_INITIAL_NUM_BUCKETS_LOG2 (%d)" % (nb, lg))
    # the hash function in effect
    if not re.search(r"#\s*else\s*\n\s*#\s*define\s+HASH_FCN\s+HASH_JEN\b", text):
        raise TranslateError("uthash.h: the default HASH_FCN is not HASH_JEN")
    for sub in ("src", "src/internal", "."):
        d = os.path.join(repo, sub)
        if os.path.isdir(d):
            for f in os.listdir(d):
                if f.endswith((".c", ".h", ".am", ".ac")) and "HASH_FUNCTION" in _read(os.path.join(d, f)):
                    raise TranslateError("%s/%s mentions HASH_FUNCTION: the hash function may not be HASH_JEN" % (sub, f))
    sq = _squash(text)
    m = re.search(r"#defineHASH_JEN_MIX\(a,b,c\)do\{(.*?)\}while\(0\)", sq)
    if not m:
        raise TranslateError("uthash.h: HASH_JEN_MIX not found")
    steps = re.findall(r"(\w)-=(\w);(\w)-=(\w);(\w)\^=\((\w)(>>|<<)(\d+)\);", m.group(1))
    want = [("a", "b", "c"), ("b", "c", "a"), ("c", "a", "b")] * 3
    if len(steps) != 9 or _squash(m.group(1)) != "".join("%s-=%s;%s-=%s;%s^=(%s%s%s);" % s for s in steps):
        raise TranslateError("uthash.h: HASH_JEN_MIX does not consist of nine `x -= y; x -= z; x ^= (z SHIFT n);` steps")
    shifts = []
    for s, (x, y, z) in zip(steps, want):
        if (s[0], s[1], s[2], s[3], s[4], s[5]) != (x, y, x, z, x, z):
            raise TranslateError("uthash.h: HASH_JEN_MIX step %r has unexpected operands" % (s,))
        shifts.append((s[6] == "<<", int(s[7])))
    mj = re.search(r"#defineHASH_JEN\(key,keylen,num_bkts,hashv,bkt\)do\{(.*?)\}while\(0\)", sq)
    if not mj:
        raise TranslateError("uthash.h: HASH_JEN not found")
    body = mj.group(1)
    ms = re.search(r"hashv=(0x[0-9a-fA-F]+)u;_hj_i=_hj_j=(0x[0-9a-fA-F]+)u;_hj_k=\(unsigned\)\(keylen\);while\(_hj_k>=12U\)", body)
    if not ms:
        raise TranslateError("uthash.h: HASH_JEN prologue not as expected")
    if "hashv+=(unsigned)(keylen);switch(_hj_k){case11:hashv+=((unsigned)_hj_key[10]<<24);" not in body \
            or "case1:_hj_i+=_hj_key[0];}HASH_JEN_MIX(_hj_i,_hj_j,hashv);bkt=hashv&(num_bkts-1U);" not in body:
        raise TranslateError("uthash.h: HASH_JEN tail not as expected")
    for what, frag in (
        ("expansion test of HASH_ADD_TO_BKT",
         "if((head.count>=((head.expand_mult+1U)*HASH_BKT_CAPACITY_THRESH))&&((addhh)->tbl->noexpand!=1U)){HASH_EXPAND_BUCKETS((addhh)->tbl);}"),
        ("ideal chain length of HASH_EXPAND_BUCKETS",
         "tbl->ideal_chain_maxlen=(tbl->num_items>>(tbl->log2_num_buckets+1U))+(((tbl->num_items&((tbl->num_buckets*2U)-1U))!=0U)?1U:0U);"),
        ("non-ideal accounting of HASH_EXPAND_BUCKETS",
         "if(++(_he_newbkt->count)>tbl->ideal_chain_maxlen){tbl->nonideal_items++;_he_newbkt->expand_mult=_he_newbkt->count/tbl->ideal_chain_maxlen;}"),
        ("ineffective-expansion rule of HASH_EXPAND_BUCKETS",
         "tbl->ineff_expands=(tbl->nonideal_items>(tbl->num_items>>1))?(tbl->ineff_expands+1U):0U;if(tbl->ineff_expands>1U){tbl->noexpand=1;"),
        ("first-insert order of HASH_ADD_KEYPTR", "if(!(head)){head=(add);(head)->hh.prev=NULL;HASH_MAKE_TABLE(hh,head);}"),
        ("HASH_DELETE of the last item",
         "if(((delptr)->hh.prev==NULL)&&((delptr)->hh.next==NULL)){uthash_free((head)->hh.tbl->buckets,(head)->hh.tbl->num_buckets*sizeof(structUT_hash_bucket));HASH_BLOOM_FREE((head)->hh.tbl);uthash_free((head)->hh.tbl,sizeof(UT_hash_table));head=NULL;}"),
    ):
        if frag not in sq:
            raise TranslateError("uthash.h: %s no longer reads as transcribed in Model/LadderMap.lean" % what)
    if re.search(r"^[ \t]*#[ \t]*define[ \t]+HASH_BLOOM\b", text, re.M):
        raise TranslateError("uthash.h: HASH_BLOOM is defined (the bloom filter allocates as well)")
    L = ["/-",
         "  GENERATED by tools/translate_uthash.py from /repo's working tree — do not edit.",
         "  Source: uthash/uthash.h (HASH_INITIAL_NUM_BUCKETS*, HASH_BKT_CAPACITY_THRESH, HASH_FCN = HASH_JEN, HASH_JEN_MIX)",
         "-/", "",
         "namespace CifModel.Gen.Uthash", "",
         "/-- `HASH_INITIAL_NUM_BUCKETS_LOG2` (and `HASH_INITIAL_NUM_BUCKETS` = 2 ^ it) -/",
         "def initialLog2 : Nat := %d" % lg,
         "def initialNumBuckets : Nat := %d" % nb,
         "/-- `HASH_BKT_CAPACITY_THRESH`: a bucket chain of (expand_mult + 1) * this many items triggers an expansion -/",
         "def bktCapacityThresh : Nat := %d" % th,
         "/-- seeds of HASH_JEN: initial `hashv`, initial `_hj_i` = `_hj_j` -/",
         "def jenSeedHash : Nat := %d" % int(ms.group(1), 16),
         "def jenSeedIJ : Nat := %d" % int(ms.group(2), 16),
         "/-- the nine steps `x -= y; x -= z; x ^= (z SHIFT n)` of HASH_JEN_MIX over (a,b,c), (b,c,a), (c,a,b), …: (left shift?, n) -/",
         "def jenMixShifts : List (Bool × Nat) := [%s]" % ", ".join("(%s, %d)" % ("true" if l else "false", n) for l, n in shifts),
         "", "end CifModel.Gen.Uthash"]
    return "\n".join(L) + "\n"


GENERATORS = {"Uthash": gen_Uthash}
