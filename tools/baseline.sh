#!/bin/sh
# Runs the repository's own test-suite with the verification guard OFF (no hooks are compiled in by default).
cd /repo && make -k check
