PROPERTY = "C09"
LEVEL = "proof"
LEAN_MODULES = ["CifModel.Props.C09"]
REQUIRED = ["CifModel.C09_idempotent", "CifModel.C09_canon_invariant", "CifModel.C09_normal_form_is_caseless_match",
            "CifModel.C09_norm_of_valid", "CifModel.C09_match_iff", "CifModel.C09_invalid_refused",
            "CifModel.C09_table_keys_partial", "CifModel.C09_table_keys_case_significant", "CifModel.C09_validity_partial"]
GEN = ["ErrCodes"]
FAMILIES = ["valid", "norm"]
TRUSTED_BASE = [
    "Lean 4.33.0 kernel; axioms propext, Classical.choice, Quot.sound only",
    "ICU (unorm_normalize NFD/NFC, u_strFoldCase) is a PARAMETER of the model (structure UnicodeOps); what the theorems assume of "
    "it is the hypothesis structure Laws (nfd_nfc, nfc_nfd, fold_stable), tested against the real ICU on every input of family norm",
    "harness/x_norm.c (assembles NFC(foldCase(NFD x)) from unorm2 / u_strFoldCase, independent of the library), harness/x_valid.c, "
    "tools/gen/norm.py, tools/gen/valid.py (oracles restating the property on the implementation's observations)",
    "hand-written models Model/Names.lean, Model/Normalize.lean, tied to src/utils.c and src/map.c by the families valid and norm",
    "SQLite's uniqueness of the normalised name columns is modelled as a list of present normal forms (createNamed / findNamed); "
    "observed through the API by `norm match`",
]
ASSUMPTIONS = [
    "Laws U: NFD(NFC x) = NFD x; NFC(NFD x) = NFC x; NFD(fold(NFD(fold(NFD x)))) = NFD(fold(NFD x)) — hypotheses of C09_idempotent and "
    "C09_normal_form_is_caseless_match, tested against ICU 72 on all code points (thorough) and seeded sequences",
    "ICU calls do not fail (allocation / internal errors are not modelled)",
    "strings are NUL-free lists of UTF-16 code units",
]
PARTIAL = [
    "C09_validity_partial: proved for every string without surrogate code units; the surrogate branches (pairs, unpaired units, "
    "supplementary non-characters; C09_validity_full) are covered by the exhaustive `valid` correspondence only",
    "C09_table_keys_partial: proved for a key whose NFC form is new to the table; the overwrite-in-place branch "
    "(C09_table_keys_full) is covered by the `norm map` correspondence only",
]
LEVEL_TEXT = ("Proof relative to stated ICU laws: cif_normalize idempotent and invariant under canonical equivalence, equal normal "
              "forms = Unicode canonical caseless match, found/duplicate iff normal forms coincide, invalid names refused with the "
              "entry point's code, table keys matched by NFC only — for all UnicodeOps satisfying Laws; validity = CIF rules for all "
              "surrogate-free strings. Model tied to the code by differential execution (valid: every BMP unit, every disallowed "
              "class at every position, length limits, API codes; norm: cif_normalize vs ICU primitives on all interesting code points / "
              "all 1 114 112 in the thorough tier, sequences, API matching, table and packet keys), laws tested against ICU.")
LEVEL_NOTE = ("Trusted: Lean kernel; hand-written models + correspondence; the ICU laws (tested, not proved). Two theorems ship as "
              "_partial (surrogate branches of validity; overwrite branch of table set) with the full statements kept as defs.")
TECHNIQUE = "Lean 4 proof about an executable model parameterised by ICU + differential execution against the real code and against ICU primitives"
