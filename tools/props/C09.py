PROPERTY = "C09"
LEVEL = "proof"
LEAN_MODULES = ["CifModel.Props.C09", "CifModel.Props.C09Buf", "CifModel.Props.C09Api", "CifModel.Props.C09Store", "CifModel.Lemmas.NamesLink", "CifModel.Props.ReviewC09", "CifModel.Props.ReviewRC09"]
REQUIRED = ["CifModel.C09_idempotent", "CifModel.C09_canon_invariant", "CifModel.C09_normal_form_is_caseless_match",
            "CifModel.C09_norm_of_valid", "CifModel.C09_match_iff", "CifModel.C09_invalid_refused",
            "CifModel.C09_table_keys", "CifModel.C09_table_enumeration", "CifModel.C09_packet_names", "CifModel.C09_map_invariant",
            "CifModel.C09_code_table", "CifModel.C09_table_keys_case_significant", "CifModel.C09_validity",
            "CifModel.Lemmas.NamesLink.limits_link", "CifModel.Lemmas.NamesLink.spec_limits_link",
            "CifModel.Lemmas.NamesLink.consts_link", "CifModel.Lemmas.NamesLink.bmpDisallowed_link",
            "CifModel.C09_normalize_buffer_refines", "CifModel.C09_unicode_normalize_buffer", "CifModel.C09_fold_case_buffer",
            "CifModel.C09_normalize_buffer_cstring", "CifModel.C09_normalize_entry_buffer_refines",
            "CifModel.C09_entry_points", "CifModel.C09_store_block_match", "CifModel.C09_table_survives_store",
            "CifModel.C09_store_frame_match", "CifModel.C09_store_item_match",
            "CifModel.C09_table_serialisation_roundtrip", "CifModel.C09_entry_points_accept"]
GEN = ["ErrCodes", "NamesConsts"]
FAMILIES = ["valid", "norm"]
TRUSTED_BASE = [
    "Lean 4.33.0 kernel; axioms propext, Classical.choice, Quot.sound only",
    "ICU (unorm_normalize NFD/NFC, u_strFoldCase) is a PARAMETER of the model at two levels: as string functions (structure UnicodeOps; "
    "assumed: the hypothesis structure Laws - nfd_nfc, nfc_nfd, fold_stable) and as calls with a destination capacity (structure "
    "IcuOps; assumed: the hypothesis structure CallContract / Contract - result + NUL and U_ZERO_ERROR when it fits with room, result "
    "and U_STRING_NOT_TERMINATED_WARNING when it fits exactly, needed length and U_BUFFER_OVERFLOW_ERROR otherwise, nothing written at "
    "or behind dest[capacity]).  Both are tested against the real ICU by family norm: the laws on every input of `norm cp`, the "
    "capacity contract by `norm icu` with every capacity 0 .. length+2 and a guarded destination",
    "harness/x_norm.c (assembles NFC(foldCase(NFD x)) from unorm2 / u_strFoldCase, independent of the library; compiles utils.c INTO "
    "the executor with malloc / realloc / free and the two ICU entry points interposed, blocks guarded by sentinels), harness/x_valid.c, "
    "tools/gen/norm.py, tools/gen/valid.py (oracles restating the property on the implementation's observations)",
    "hand-written models Model/Names.lean, Model/Normalize.lean, Model/NormalizeBuf.lean, tied to src/utils.c and src/map.c by the "
    "families valid and norm (norm buf: the file-static cif_unicode_normalize / cif_fold_case and cif_normalize / cif_normalize_name / "
    "_item_name / _table_index under every source-length convention), and "
    "by tools/translate_names.py: CIF_LINE_LENGTH, the code/item reserve of cif_is_valid_name, the whitespace bound, surrogate ranges, "
    "non-character masks and the BMP test of cif_has_disallowed_chars are re-extracted on every run (Gen/NamesConsts.lean) and linked to "
    "the model by Lemmas/NamesLink.lean (the translated character test compared on all 65 536 units by kernel evaluation)",
    "the entry-point models of other groups (Model/Store.lean, Model/Value.lean) in C09_entry_points / C09_store_block_match / C09_code_table",
    "SQLite's uniqueness of the normalised name columns is modelled as a list of present normal forms (createNamed / findNamed) and, for "
    "blocks, by the store model's data_block rows; observed through the API by `norm match`",
]
ASSUMPTIONS = [
    "Laws U: NFD(NFC x) = NFD x; NFC(NFD x) = NFC x; NFD(fold(NFD(fold(NFD x)))) = NFD(fold(NFD x)) - hypotheses of C09_idempotent and "
    "C09_normal_form_is_caseless_match, tested against ICU 72 on all code points (thorough) and seeded sequences",
    "Contract U I (buffer level): each ICU entry point follows the capacity convention for the string function it computes - hypothesis "
    "of C09_normalize_buffer_refines and the other *_buffer theorems, tested against ICU (norm icu); ICU calls do not fail otherwise and "
    "malloc / realloc do not fail (the C's branches for those cases are modelled - IcuStatus.failure - or belong to C17)",
    "source-length convention inside the source block (explicit length <= block, or < 0 with a terminator present): cif.h states it as a "
    "precondition; outside it the model answers Err.oobRead (stated in the theorems), the C reads out of bounds",
    "int32_t arithmetic of `src_chars + 1` / `normalized_chars + 1` does not overflow (strings shorter than 2^31 - 1 units)",
    "strings are NUL-free lists of UTF-16 code units where the caller reads a C string (C09_normalize_buffer_cstring, C09_entry_points "
    "part A: normal form NUL-free); the buffer-level theorems themselves allow embedded NULs under explicit lengths",
]
PARTIAL = [
    "the theorems about tables and packets are about the map of map.c at association-list level (Model/Normalize.lean `Entries`, tied by "
    "family `norm map`, which also sends every table through a managed CIF - set_value / get_value, loop packet / packet iterator - and "
    "probes the READ-BACK table; C09_table_survives_store: a table put into the store model by set_value (Store.Codec.setValueC: value -> SQL "
    "columns incl. the serialised blob -> value) and read back by get_value is a value on which Value.table* with the C09 normaliser answer "
    "exactly what Normalize's Entries operations answer on the stored entries (bridge between the two map models: Lemmas/NamesBridge.lean, "
    "maps with pairwise different keys) - so C09_table_keys / _enumeration speak about the table read back; the add_packet / iterator route "
    "is C07_stored_read_identical's ReadsBack at row level and the correspondence `norm map` op P, not restated here; a packet delivered by a packet iterator "
    "carries its NORMALISED names as spellings - modelled, no property fixes that spelling); that uthash enumerates in insertion order, and key / key_orig memory ownership, are correspondence-only "
    "(families norm, val; C16 / C19 for the heap level)",
    "C09_entry_points / C09_entry_points_accept instantiate the name parameter of the entry-point models of other groups (Model/Store.lean "
    "create_block / create_frame / create_loop / set_value / add_item, Model/Value.lean table set / packet set / packet create) with the C09 "
    "models down to buffer level and prove verdict = CIF rules (refused as INVALID_* exactly when Spec.validName fails) and stored key = "
    "cif_normalize (NFC for table keys) of the caller's string.  FIXED BY INSTANTIATION, not by the entry-point models (review rA, B): "
    "WHICH normaliser and which validity test an entry point applies - `apiName U false` for block / frame codes, `apiName U true` for data "
    "names, `itemNorm U` for packets, `tableNorm U` for table keys (Model/NamesApi.lean) - is chosen in the theorem statements; "
    "Store.createBlock etc. take an arbitrary `Name`, Value.tableSet an arbitrary normaliser.  What ties the choice to the C: for tables "
    "and packets the driver family `norm map` now EXECUTES the composed terms (Value.tableSet (tableNorm U), Value.packetSet / packetGet / "
    "packetRemove / packetCreate (itemNorm U), every refusal code printed comes out of those functions) against the real "
    "cif_value_set_item_by_key / cif_packet_set_item / ...; family `val` takes the verdict of its tset / pset from Value.tableSet / "
    "Value.packetSet too (the normal form still travels in the request).  For the STORE entry points the composed term "
    "`createBlock s (some (apiName U false x))` is executed by no family: family `store` feeds Name records computed in Python, `norm match` "
    "runs createNamed / findNamed; the tie is three separate correspondences (store on those records, `norm cp` for cifNormalize, "
    "`valid fn` / `valid api` for isValidName and the INVALID_* codes); that the real entry points call cif_normalize_name(code, -1, ...) "
    "first is therefore observed, not proved.  For set_value / add_item only the verdict and the identity with the call on the normalised "
    "record are stated here - the rows they store are C04's refinement",
    "found / duplicate: C09_match_iff on the list of present normal forms; C09_store_block_match / C09_store_frame_match / "
    "C09_store_item_match compose it with the store model for ONE creation followed by look-up / re-creation, from any store state whose "
    "keys are the normal forms of their spellings (invariant shown preserved by the three creating calls; the id-sequence facts the DUP "
    "direction needs are hypotheses that C04's invariant provides); items at API level: cif_container_get_item_loop finds, "
    "cif_loop_add_item / cif_container_create_loop report CIF_DUP_ITEMNAME under exactly the equivalent spellings (state satisfying C04's "
    "invariant InvS) - NOT cif_container_get_value, which answers CIF_NOSUCH_ITEM for a loop without packets; set_value / remove and whole "
    "histories are property C04's",
    "ICU itself: `Laws` and `Contract` are hypotheses (tested against ICU on all code points resp. all capacities 0 .. length+2 of "
    "seeded strings), not proved; allocation failure inside the retry loops (`while (buf)`, the unchecked malloc after an overflow) is "
    "property C17's fault-injection census, not modelled here",
    "the trace of allocator / ICU calls of the buffer-level model (first-buffer capacity src_chars + 1, retry capacity needed + 1, realloc "
    "for the terminator) is proved about the model and checked for safety on the implementation's own trace by the `norm buf` oracle, but "
    "deliberately NOT compared between model and implementation (no property fixes capacities: a different first guess is harmless); the "
    "theorems hold for EVERY first-buffer capacity (`guess`)",
]
LEVEL_TEXT = ("Proof relative to stated ICU laws: cif_normalize idempotent and invariant under canonical equivalence, equal normal "
              "forms = Unicode canonical caseless match, found/duplicate iff normal forms coincide, invalid names refused with the "
              "entry point's code, table keys matched by NFC only - for all UnicodeOps satisfying Laws; validity = the CIF rules on code points for EVERY string of 16-bit units "
              "(surrogate pairs, unpaired surrogates, supplementary non-characters, limits 2048 / 2043). Buffer level (C09_normalize_buffer_refines, "
              "relative to ICU's capacity contract): for every input, source-length convention inside the block, first-buffer capacity and fuel >= 2, "
              "cif_unicode_normalize / cif_fold_case / cif_normalize return exactly the string-level result (+ terminator where promised) in at most "
              "two ICU calls per stage, never store outside a block they allocated, never read outside a source, free every intermediate block; the "
              "three cif_normalize_* entry points refine the string-level normalisers; C09_entry_points: the name parameter of every name-taking "
              "entry-point model is what these functions compute, verdict = CIF rules, stored key = normal form of the caller's string. "
              "Model tied to the code by differential execution (valid: every BMP unit, every disallowed "
              "class at every position, length limits, API codes; norm: cif_normalize vs ICU primitives on all interesting code points / "
              "all 1 114 112 in the thorough tier, sequences, API matching, table and packet keys; norm buf: utils.c with interposed allocator "
              "and ICU calls; norm icu: the capacity contract), laws and contract tested against ICU.")
LEVEL_NOTE = ("Trusted: Lean kernel; hand-written models + correspondence + link theorems over regenerated constants; the ICU laws and the ICU "
              "capacity contract (tested against ICU, not proved). No _partial theorem; what stays correspondence-only is listed in PARTIAL "
              "(uthash order / ownership, that the real entry points make the modelled calls, allocation failure).")
TECHNIQUE = "Lean 4 proof about an executable model parameterised by ICU (string level and buffer level) + differential execution against the real code and against ICU primitives"
