PROPERTY = "C09"
LEVEL = "proof"
LEAN_MODULES = ["CifModel.Props.C09", "CifModel.Props.C09Buf", "CifModel.Props.C09Api", "CifModel.Lemmas.NamesLink", "CifModel.Props.ReviewC09"]
REQUIRED = ["CifModel.C09_idempotent", "CifModel.C09_canon_invariant", "CifModel.C09_normal_form_is_caseless_match",
            "CifModel.C09_norm_of_valid", "CifModel.C09_match_iff", "CifModel.C09_invalid_refused",
            "CifModel.C09_table_keys", "CifModel.C09_table_enumeration", "CifModel.C09_packet_names", "CifModel.C09_map_invariant",
            "CifModel.C09_code_table", "CifModel.C09_table_keys_case_significant", "CifModel.C09_validity",
            "CifModel.Lemmas.NamesLink.limits_link", "CifModel.Lemmas.NamesLink.spec_limits_link",
            "CifModel.Lemmas.NamesLink.consts_link", "CifModel.Lemmas.NamesLink.bmpDisallowed_link",
            "CifModel.C09_normalize_buffer_refines", "CifModel.C09_unicode_normalize_buffer", "CifModel.C09_fold_case_buffer",
            "CifModel.C09_normalize_buffer_cstring", "CifModel.C09_normalize_entry_buffer_refines",
            "CifModel.C09_entry_points", "CifModel.C09_store_block_match"]
GEN = ["ErrCodes", "NamesConsts"]
FAMILIES = ["valid", "norm"]
TRUSTED_BASE = [
    "Lean 4.33.0 kernel; axioms propext, Classical.choice, Quot.sound only",
    "ICU (unorm_normalize NFD/NFC, u_strFoldCase) is a PARAMETER of the model (structure UnicodeOps); what the theorems assume of "
    "it is the hypothesis structure Laws (nfd_nfc, nfc_nfd, fold_stable), tested against the real ICU on every input of family norm",
    "harness/x_norm.c (assembles NFC(foldCase(NFD x)) from unorm2 / u_strFoldCase, independent of the library), harness/x_valid.c, "
    "tools/gen/norm.py, tools/gen/valid.py (oracles restating the property on the implementation's observations)",
    "hand-written models Model/Names.lean, Model/Normalize.lean, tied to src/utils.c and src/map.c by the families valid and norm, and "
    "by tools/translate_names.py: CIF_LINE_LENGTH, the code/item reserve of cif_is_valid_name, the whitespace bound, surrogate ranges, "
    "non-character masks and the BMP test of cif_has_disallowed_chars are re-extracted on every run (Gen/NamesConsts.lean) and linked to "
    "the model by Lemmas/NamesLink.lean (the translated character test compared on all 65 536 units by kernel evaluation)",
    "SQLite's uniqueness of the normalised name columns is modelled as a list of present normal forms (createNamed / findNamed); "
    "observed through the API by `norm match`",
]
ASSUMPTIONS = [
    "Laws U: NFD(NFC x) = NFD x; NFC(NFD x) = NFC x; NFD(fold(NFD(fold(NFD x)))) = NFD(fold(NFD x)) — hypotheses of C09_idempotent and "
    "C09_normal_form_is_caseless_match, tested against ICU 72 on all code points (thorough) and seeded sequences",
    "ICU calls do not fail (allocation / internal errors are not modelled)",
    "strings are NUL-free lists of UTF-16 code units",
]
PARTIAL = [
    "the theorems about tables and packets are about the map of map.c at association-list level (Model/Normalize.lean `Entries`, tied by "
    "family `norm map`); that uthash enumerates in insertion order, and key / key_orig memory ownership, are correspondence-only "
    "(families norm, val; C16 / C19 for the heap level)",
    "C09_code_table is stated against the entry-point models of other groups (Model/Store.lean, Model/Value.lean): that the real entry "
    "points compute the validity verdict with cif_is_valid_name / cif_has_disallowed_chars (i.e. `apiName`, `itemNorm`, `tableNorm` are what "
    "the C passes on) is observed by family `valid api` (create block / frame / item / loop / packet / packet item / table key), not proved",
    "found / duplicate for blocks, frames and items is proved on the list of present normal forms (`createNamed` / `findNamed`: SQL "
    "uniqueness of the normalised name column); its composition with the store model's histories is property C04's",
    "ICU itself: `Laws` are hypotheses (tested on all code points); byte-level behaviour of unorm_normalize / u_strFoldCase buffers "
    "(U_BUFFER_OVERFLOW_ERROR retry loops of cif_unicode_normalize / cif_fold_case) is not modelled - correspondence only",
]
LEVEL_TEXT = ("Proof relative to stated ICU laws: cif_normalize idempotent and invariant under canonical equivalence, equal normal "
              "forms = Unicode canonical caseless match, found/duplicate iff normal forms coincide, invalid names refused with the "
              "entry point's code, table keys matched by NFC only — for all UnicodeOps satisfying Laws; validity = the CIF rules on code points for EVERY string of 16-bit units "
              "(surrogate pairs, unpaired surrogates, supplementary non-characters, limits 2048 / 2043). Model tied to the code by differential execution (valid: every BMP unit, every disallowed "
              "class at every position, length limits, API codes; norm: cif_normalize vs ICU primitives on all interesting code points / "
              "all 1 114 112 in the thorough tier, sequences, API matching, table and packet keys), laws tested against ICU.")
LEVEL_NOTE = ("Trusted: Lean kernel; hand-written models + correspondence + link theorems over regenerated constants; the ICU laws "
              "(tested against ICU, not proved). No _partial theorem.")
TECHNIQUE = "Lean 4 proof about an executable model parameterised by ICU + differential execution against the real code and against ICU primitives"
