PROPERTY = "C10"
LEVEL = "proof"
LEAN_MODULES = ["CifModel.Props.C10", "CifModel.Lemmas.NumbLink", "CifModel.Lemmas.NumbLimbLink"]
REQUIRED = ["CifModel.C10_to_double_big", "CifModel.C10_to_double_zero", "CifModel.C10_to_double_big_partial", "CifModel.C10_to_double_core", "CifModel.C10_round_to_int_ties_even",
            "CifModel.C10_rne_is_nearest", "CifModel.C10_syntax", "CifModel.C10_su_scaled", "CifModel.C10_rejects_unchanged", "CifModel.C10_accepts_fields",
            "CifModel.C10_exponent_no_overflow", "CifModel.C10_scale_within_int", "CifModel.C10_cex_scale_exceeds_int_pinned",
            "CifModel.C10_scale_within_int_pinned_refuted",
            "CifModel.C10_init_correctly_rounded", "CifModel.C10_init_text_roundtrip", "CifModel.C10_autoinit_text_roundtrip", "CifModel.C10_autoinit_scale", "CifModel.C10_msp_exact", "CifModel.C10_limbs_shr_pass", "CifModel.C10_limbs_shl_pass", "CifModel.C10_limbs_round_to_int", "CifModel.C10_limbs_carry_loop", "CifModel.C10_limbs_refine_to_double", "CifModel.C10_limbs_digits_shift", "CifModel.C10_limbs_round_in_limb", "CifModel.C10_limbs_refine_to_digits", "CifModel.C10_limbs_refine_big", "CifModel.C10_limbs_to_double_rne",
            "CifModel.Lemmas.NumbLimbLink.link_limb_arrays",
            "CifModel.Lemmas.NumbLink.link_chars", "CifModel.Lemmas.NumbLink.link_int", "CifModel.Lemmas.NumbLink.link_float",
            "CifModel.Lemmas.NumbLink.link_bignum", "CifModel.Lemmas.NumbLink.link_misc", "CifModel.Lemmas.NumbLink.link_ldexp"]
GEN = ["NumbConsts", "ErrCodes"]
FAMILIES = ["numb", "todbl", "todig", "initnumb"]
TRUSTED_BASE = [
    "Lean 4.33.0 kernel; axioms propext, Classical.choice, Quot.sound only (audited per theorem on every run)",
    "tools/translate_numb.py: the numeric constants of src/value.c as the compiler evaluates them (probe translation unit "
    "that #includes value.c), tied to the model by the link lemmas of Lemmas/NumbLink.lean",
    "harness/x_numb.c, x_todbl.c, x_todig.c, x_initnumb.c (+ x_numb_dbl.h) and tools/gen/{numb,todbl,todig,initnumb,numbcommon}.py: "
    "executors of the real code, exact-rational oracles, comparison of doubles as (sign, mantissa, exponent) integers",
    "glibc strtod (reference conversions printed by the executors; cross-checked against the exact integer computation)",
    "libm log10/floor/frexp/ldexp and printf(\"%.*e\") as used by the C: log10-based estimates enter the model as exact integer "
    "logarithms (to_double: checked over the full leading-digit x decimal-exponent table on every run; MSP(val): a parameter of the "
    "model, fed from the observation; the oracle demands the exact floor(log10|val|), C10_msp_exact)",
]
ASSUMPTIONS = [
    "default floating-point rounding mode (FE_TONEAREST); the other branches of round_it are not modelled",
    "the limb-level model answers `none` where the C would index outside its work array; absence of overrun is observed (ASan), not proved",
    "IEEE 754 binary64 double, 32-bit int (constants re-extracted and link-checked on every run)",
]
PARTIAL = [
]
LEVEL_TEXT = ("Proof at the exact-arithmetic level: the model of to_double() returns the IEEE 754 round-to-nearest-even double for every "
              "digit string of up to 2048 significant digits, leading and trailing zeroes allowed (C10_to_double_big, built on C10_to_double_core, "
              "which holds for every fraction and every admissible shift estimate); round_to_int as written is round-half-even; "
              "init_numb records the correctly rounded digit strings; the saturating exponent accumulation stays below 2^31 and the scale arithmetic of every accepted text of up to a line stays within int (C10_scale_within_int). "
              "Acceptance is proved (C10_syntax: parseNumb accepts exactly NumberSyntax, with the denoted fields). The init/autoinit text round trip is proved (C10_init_text_roundtrip). Autoinit chooses the largest scale with rounded su <= su_rule (C10_autoinit_scale).")
LEVEL_NOTE = ("No partial part: the exact-arithmetic level is proved against the specification and the base-10^9 limb level of to_double and to_digits is "
              "proved to refine it (C10_limbs_refine_big); array overrun of the limb level is `none` in the model and watched for under ASan by the executors. "
              "No open finding; three findings of this group are fixed (d4436fb, e89d5d7, 0504c8d).")
TECHNIQUE = "Lean 4 proofs about an executable exact-arithmetic model + differential execution against the real code with exact-rational oracles"
