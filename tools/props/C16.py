PROPERTY = "C16"
LEVEL = "proof"
LEAN_MODULES = ["CifModel.Props.C16", "CifModel.Props.ReviewC16"]
REQUIRED = ["CifModel.C16_init_numb_locale_restored", "CifModel.C16_autoinit_numb_locale_restored",
            "CifModel.C16_set_c_saves_current", "CifModel.C16_set_c_failure_keeps"]
GEN = []
FAMILIES = ["locale", "api16"]
# request streams of the other properties' families, re-run with exact per-case leak accounting (see harness/alloc.h);
# only families whose executors declare themselves leak-clean take part
LEAK_FAMILIES = ["cifio", "ladder", "analyze", "reserved", "setq", "valid", "norm", "numb", "todbl", "todig", "initnumb",
                 "fills", "dialect", "align", "lex", "write", "writeval", "decode", "store", "iter", "ser", "val", "storeval",
                 "walk", "pcb", "parse"]
LEAK_LIMIT = {"quick": 400, "thorough": 20000}
TRUSTED_BASE = [
    "Lean 4.33.0 kernel; axioms propext / Quot.sound only",
    "Model/Locale.lean: hand transcription of set_c_numeric_locale / cif_value_init_numb / cif_value_autoinit_numb's locale "
    "protocol, tied by family `locale` (LC_NUMERIC and fegetround() sampled around the real calls on every path)",
    "gcc AddressSanitizer + UndefinedBehaviorSanitizer as detectors of out-of-bounds / use-after-free / UB in the real code; "
    "harness/alloc.h exact leak accounting (--wrap of the allocators in the executor)",
]
ASSUMPTIONS = [
    "Restorable: setlocale() succeeds when asked to re-install a locale name it returned itself",
    "memory safety, absence of UB and absence of leaks are OBSERVED on the request streams of all families (every "
    "correspondence run of every property executes the real code under ASan+UBSan; this check re-runs them with leak "
    "accounting), not proved",
]
PARTIAL = [
    "memory safety of the C code is runtime-observed, not proved (no verified C semantics in this tool set)",
    "proved parts: locale protocol (this file); bounded exponent arithmetic (C10_exponent_no_overflow, property C10); "
    "ownership protocol of the clean-up ladders (property C17) and of map/list cells (property C19, heap level)",
]
LEVEL_TEXT = ("Partial. Proved in Lean: the numeric-locale save/switch/restore protocol returns with the caller's locale on "
              "every path (all failure combinations, nested call). Everything else C16 speaks about - out-of-bounds access, "
              "use after free, undefined behaviour, leaks - is observed at run time: the request streams of all other "
              "properties' families are re-executed on the real code under ASan/UBSan with exact per-request leak accounting.")
LEVEL_NOTE = ("The model cannot exhibit memory errors of the C; a sanitizer report, a leaked block or a changed locale / "
              "rounding mode on any generated request is reported as a violation with that request as replay.")
TECHNIQUE = "Lean 4 case analysis of the locale protocol model + sanitizer/leak-accounting sweeps of all request streams"
