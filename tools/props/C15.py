PROPERTY = "C15"
LEVEL = "proof"
LEAN_MODULES = ["CifModel.Props.C15"]
REQUIRED = ["CifModel.C15_skip_depth_balanced_partial", "CifModel.C15_result_nonneg", "CifModel.C15_positive_aborts_local",
            "CifModel.C15_loop_start_local", "CifModel.C15_cex_loop_start_pinned", "CifModel.C15_loop_start_code_returned"]
GEN = ["ErrCodes"]
FAMILIES = ["pcb"]
TRUSTED_BASE = [
    "Lean 4.33.0 kernel; axioms propext, Classical.choice, Quot.sound only",
    "lean/CifModel/Model/ParseCB.lean is a faithful transcription of the handler call sites, syntax callbacks and skip_depth "
    "bookkeeping of parse_cif / parse_container / parse_item / parse_loop / parse_loop_header / parse_loop_packets / "
    "parse_value / parse_list / parse_table / next_token (whitespace reporting) of src/parser.c, on the well-formed paths "
    "(checked on every run by the `pcb` correspondence family in storing and syntax-only mode, under ASan+UBSan)",
    "tools/gen/pcb.py: the renderer (abstract document -> text + token sequence; the lexer itself is another group's "
    "model) and the independent implementation-level oracle; harness/x_pcb.c, harness/cifio.h",
    "lean/CifModel/Spec/Traversal.lean part 2 (Doc, tokensOf, docEvents, denote) as the meaning of the `_full` statements",
]
ASSUMPTIONS = [
    "documents are well-formed CIF 2.0 without duplicate block codes, frame codes or data names (so no error callback and "
    "no DUP_* diagnostic is reachable); where the C would call the error callback the model stops with MALFORMED",
    "handlers do not modify the CIF under construction",
    "default parse options (max_frame_depth clamps to 1: one level of save frames)",
]
PARTIAL = [
    "C15_skip_depth_balanced_partial covers parse_value/list/table, parse_item and the packet loop of parse_loop_packets "
    "(all token sequences, all programs); the parse_loop / parse_container / parse_cif levels (C15_skip_depth_balanced_full) "
    "are not proved — correspondence only",
    "C15_all_continue_mirror, C15_syntax_only_same_log, C15_skip_semantics, C15_end_ok, C15_positive_aborts are NOT proved as "
    "global theorems (stated as *_full propositions); proved are the local laws C15_positive_aborts_local / "
    "C15_loop_start_local at every handler call site and C15_result_nonneg; the global statements are checked by the "
    "independent oracle of the pcb family on every run",
]
LEVEL_TEXT = ("Partial proof about the executable token-level model ParseCB.parseCB (all token sequences, all handler "
              "programs): skip_depth balance of the value, item and packet-loop productions, non-negativity, local "
              "abort laws at the handler call sites, the repaired loop_start defect F33 as a statement about the pinned step; the model is "
              "tied to src/parser.c by differential execution in storing and syntax-only mode with an independent "
              "implementation-level oracle that restates C15 (document-order mirror, same log in both modes, skip / END / "
              "error semantics, stored content).")
LEVEL_NOTE = ("Global C15 theorems are not proved (see partial); assurance for them is the correspondence run + oracle. "
              "F33 fixed by 43d0bb7. Trusted: Lean kernel, model transcription (checked by correspondence), renderer/oracle in "
              "tools/gen/pcb.py, harness.")
TECHNIQUE = "Lean 4 proof (fuel induction with a boundary invariant for skip_depth) + differential correspondence with an independent oracle"
