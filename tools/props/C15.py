PROPERTY = "C15"
LEVEL = "proof"
LEAN_MODULES = ["CifModel.Props.C15", "CifModel.Props.ReviewC15", "CifModel.Props.C15Layout", "CifModel.Props.C15Dup", "CifModel.Props.C15Events"]
REQUIRED = ["CifModel.C15_skip_depth_balanced", "CifModel.C15_skip_depth_nonneg", "CifModel.C15_skip_depth_cif", "CifModel.C15_stop_is_last", "CifModel.C15_end_ok", "CifModel.C15_positive_aborts", "CifModel.C15_skip_opens_region", "CifModel.C15_skipped_region_silent", "CifModel.C15_syntax_only_same_log", "CifModel.C15_value_mirror", "CifModel.C15_all_continue_mirror", "CifModel.C15_all_continue_mirror_parseCB", "CifModel.C15_stored_is_structural", "CifModel.C15_skip_semantics_rest", "CifModel.C15_unfiltered_is_denote", "CifModel.C15_result_nonneg", "CifModel.C15_positive_aborts_local",
            "CifModel.C15_loop_start_local", "CifModel.C15_cex_loop_start_pinned", "CifModel.C15_loop_start_code_returned",
            "CifModel.C15_stored_is_structural_any", "CifModel.C15_stop_semantics_store", "CifModel.C15_cut_extends_pruned",
            "CifModel.C15_dup_all_continue_mirror", "CifModel.C15_events_sublist", "CifModel.C15_denote_is_grammar_denote",
            "CifModel.C15_all_continue_stores_grammar_denote", "CifModel.C15_ws_reported_in_order",
            "CifModel.C15_layout_independent", "CifModel.C15_layout_free", "CifModel.C15_layout_callbacks",
            "CifModel.C15_layout_callbacks_doc", "CifModel.C15_layout_all_continue", "CifModel.C15_layout_all_continue_mirror",
            "CifModel.C15_layout_stop_semantics", "CifModel.C15_layout_rendered",
            "CifModel.C15_dup_structural_any", "CifModel.C15_dup_header_dropped_column", "CifModel.C15_dup_layout",
            "CifModel.C15_start_only_callbacks", "CifModel.C15_start_only_callbacks_layout",
            "CifModel.C15_dup_is_plain_without_duplicates", "CifModel.C15_dup_stop_semantics_without_duplicates"]
GEN = ["ErrCodes"]
FAMILIES = ["pcb"]
TRUSTED_BASE = [
    "Lean 4.33.0 kernel; axioms propext, Classical.choice, Quot.sound only",
    "lean/CifModel/Model/ParseCB.lean is a faithful transcription of the handler call sites, syntax callbacks and skip_depth "
    "bookkeeping of parse_cif / parse_container / parse_item / parse_loop / parse_loop_header / parse_loop_packets / "
    "parse_value / parse_list / parse_table / next_token (whitespace reporting) of src/parser.c, on the well-formed paths "
    "(checked on every run by the `pcb` correspondence family in storing and syntax-only mode, under ASan+UBSan)",
    "tools/gen/pcb.py: the renderer (abstract document -> text + token sequence; the lexer itself is another group's "
    "model) and the independent implementation-level oracle; harness/x_pcb.c, harness/cifio.h",
    "lean/CifModel/Spec/Traversal.lean part 2 (Doc, tokensOf, docEvents, denote) as the meaning of the `_full` statements",
]
ASSUMPTIONS = [
    "documents are well-formed CIF 2.0 except that block codes, frame codes and data names (scalar items, loop headers) may "
    "repeat (same or ASCII-case-variant spelling): the DUP_* diagnostics with an error callback that accepts are modelled "
    "(Model/ParseCBDup.lean: parseCBD, run by the pcb driver and cross-checked there against parseCB on every case without a "
    "diagnostic); the recovery paths on which handler code runs — CIF_PARTIAL_PACKET (packet_end of the filled packet / pop of "
    "the skip depth), CIF_EMPTY_LOOP, CIF_NULL_LOOP (loop_end with a NULL loop, no loop_start), CIF_MISSING_VALUE (item handler "
    "with a synthetic unknown value), CIF_UNEXPECTED_VALUE, stray closing delimiters — are modelled in a third layer "
    "(Model/ParseCBRec.lean: parseCBR, the model the pcb driver runs; cross-checked there against parseCBD on every case "
    "without such a diagnostic) and covered by correspondence + oracle only, no theorem; for any other defect the model stops "
    "with MALFORMED (error recovery is property C12); a loop header that loses ALL its names is outside",
    "handlers do not modify the CIF under construction",
    "default parse options (max_frame_depth clamps to 1: one level of save frames)",
]
PARTIAL = [
    "the document-level theorems (C15_all_continue_mirror, C15_stored_is_structural(_any), C15_skip_semantics_rest, "
    "C15_stop_semantics_store, C15_events_sublist) are about the LAYOUT-FREE token sequence tokensOf d of a well-formed, "
    "duplicate-free abstract document (wfDocN norm d, any normalisation norm; with duplicates: parseCBD, "
    "C15_dup_all_continue_mirror).  Whitespace / comment callbacks: proved per token only (C15_ws_reported_in_order: "
    "next_token reports the layout in front of a token in order, comments always, whitespace unless skipping, once); their "
    "order across a whole document and the independence of everything else from layout are NOT theorems — they are checked "
    "by the correspondence run (the oracle compares the concatenated whitespace callbacks with the document's layout, all "
    "layouts of the renderer)",
    "the store is characterised for EVERY program (C15_stop_semantics_store: pruned and cut at the stopping answer, cutDoc) "
    "and agrees with the independent Spec/Grammar denotation (C15_denote_is_grammar_denote); the callback LOG at document "
    "level is characterised exactly for all-continue programs (= docEvents) and for every program as a sublist of docEvents "
    "in document order (C15_events_sublist); which callbacks are left out is said through the structural interpreter xDoc "
    "(C15_stored_is_structural_any) and the region theorems, not by a closed declarative formula",
    "C15_syntax_only_same_log assumes a handler program that does not look at the (NULL in syntax-only mode) handles and that "
    "the storing parse does not stop on a frame-nesting diagnostic (input not well-formed under the options)",
    "duplicate block/frame codes and data names (DUP_* diagnostics, accepting error callback): modelled (parseCBD), covered "
    "by the correspondence run with an oracle that restates the recovery (reopen the existing block/frame: its handle goes to "
    "the handlers, its content is what later names are checked against and added to; a duplicate scalar gets its data-name "
    "callback and the error callback but no item handler and is not stored; a duplicate loop-header name is dropped from "
    "loop_start / the loop, its values are parsed without item handler; header names are checked against the container "
    "even while skipping, against the header itself even without a container) and, for all-continue handlers and documents "
    "whose loop headers repeat nothing, by the theorem C15_dup_all_continue_mirror (callbacks = dupEvents, store = dupDenote; "
    "Spec/TraversalDup.lean); duplicate loop-header names and duplicates under skipping / stopping programs are covered by the "
    "model + correspondence only",
]
LEVEL_TEXT = ("Proof about the executable token-level model ParseCB.parseCB. For all token sequences and all handler programs: "
              "skip_depth balance of every production, an END / error answer is the last callback and determines the result, "
              "SKIP answers open regions that are silent and store nothing, syntax-only mode = storing mode up to handles. For "
              "every well-formed abstract document over its token sequence: all-continue callbacks = document order events and "
              "store = denotation; for EVERY program (skips, END, error codes) store = denotation of the document with the bypassed "
              "sub-trees removed and cut at the stopping answer (cutDoc), return value = that answer if positive else CIF_OK. "
              "The model is tied to src/parser.c by differential execution in storing and syntax-only mode with an independent "
              "implementation-level oracle that restates C15.")
LEVEL_NOTE = ("Document-level theorems are about layout-free token sequences (layout is covered by the token-sequence theorems and "
              "the correspondence run); DUP_* diagnostics and error recovery are outside the model. F33 fixed by 43d0bb7. Trusted: "
              "Lean kernel, model transcription (checked by correspondence), Spec/Traversal.lean (Doc, docEvents, denote, prunedDoc), "
              "renderer/oracle in tools/gen/pcb.py, harness.")
TECHNIQUE = "Lean 4 proof (fuel induction with a boundary invariant for skip_depth) + differential correspondence with an independent oracle"
