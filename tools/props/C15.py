PROPERTY = "C15"
LEVEL = "proof"
LEAN_MODULES = ["CifModel.Props.C15"]
REQUIRED = ["CifModel.C15_skip_depth_balanced", "CifModel.C15_skip_depth_nonneg", "CifModel.C15_skip_depth_cif", "CifModel.C15_stop_is_last", "CifModel.C15_end_ok", "CifModel.C15_positive_aborts", "CifModel.C15_skip_opens_region", "CifModel.C15_skipped_region_silent", "CifModel.C15_syntax_only_same_log", "CifModel.C15_value_mirror", "CifModel.C15_all_continue_mirror", "CifModel.C15_all_continue_mirror_parseCB", "CifModel.C15_stored_is_structural", "CifModel.C15_result_nonneg", "CifModel.C15_positive_aborts_local",
            "CifModel.C15_loop_start_local", "CifModel.C15_cex_loop_start_pinned", "CifModel.C15_loop_start_code_returned"]
GEN = ["ErrCodes"]
FAMILIES = ["pcb"]
TRUSTED_BASE = [
    "Lean 4.33.0 kernel; axioms propext, Classical.choice, Quot.sound only",
    "lean/CifModel/Model/ParseCB.lean is a faithful transcription of the handler call sites, syntax callbacks and skip_depth "
    "bookkeeping of parse_cif / parse_container / parse_item / parse_loop / parse_loop_header / parse_loop_packets / "
    "parse_value / parse_list / parse_table / next_token (whitespace reporting) of src/parser.c, on the well-formed paths "
    "(checked on every run by the `pcb` correspondence family in storing and syntax-only mode, under ASan+UBSan)",
    "tools/gen/pcb.py: the renderer (abstract document -> text + token sequence; the lexer itself is another group's "
    "model) and the independent implementation-level oracle; harness/x_pcb.c, harness/cifio.h",
    "lean/CifModel/Spec/Traversal.lean part 2 (Doc, tokensOf, docEvents, denote) as the meaning of the `_full` statements",
]
ASSUMPTIONS = [
    "documents are well-formed CIF 2.0 without duplicate block codes, frame codes or data names (so no error callback and "
    "no DUP_* diagnostic is reachable); where the C would call the error callback the model stops with MALFORMED",
    "handlers do not modify the CIF under construction",
    "default parse options (max_frame_depth clamps to 1: one level of save frames)",
]
PARTIAL = [
    "C15_skip_semantics: proved are C15_skip_opens_region + C15_skipped_region_silent (all token sequences) and "
    "C15_stored_is_structural (for well-formed documents and skip-only programs the parse logs and stores exactly what the "
    "structural interpreter kDoc does on the document tree). The remaining clause 'stored = denote of the document with the "
    "bypassed sub-trees removed' is STATED (C15_skip_semantics_rest_full over Spec.Doc.prunedDoc) but not proved; it is "
    "kernel-checked (decide) for all single and many double deviations on two documents and checked by the strict pcb oracle",
    "C15_syntax_only_same_log is proved for handler programs that do not look at the (NULL in syntax-only mode) handles and "
    "under the hypothesis that the storing parse does not stop on a frame-nesting diagnostic (not well-formed under the options)",
    "C15_all_continue_mirror is proved for every well-formed abstract document over its layout-free token sequence (tokensOf) "
    "and any fuel >= szDoc d + 1; the parseCB corollary carries the decidable hypothesis szDoc d + 1 <= fuelFor (tokensOf d)",
]
LEVEL_TEXT = ("Partial proof about the executable token-level model ParseCB.parseCB (all token sequences, all handler "
              "programs): skip_depth balance of the value, item and packet-loop productions, non-negativity, local "
              "abort laws at the handler call sites, the repaired loop_start defect F33 as a statement about the pinned step; the model is "
              "tied to src/parser.c by differential execution in storing and syntax-only mode with an independent "
              "implementation-level oracle that restates C15 (document-order mirror, same log in both modes, skip / END / "
              "error semantics, stored content).")
LEVEL_NOTE = ("Global C15 theorems are not proved (see partial); assurance for them is the correspondence run + oracle. "
              "F33 fixed by 43d0bb7. Trusted: Lean kernel, model transcription (checked by correspondence), renderer/oracle in "
              "tools/gen/pcb.py, harness.")
TECHNIQUE = "Lean 4 proof (fuel induction with a boundary invariant for skip_depth) + differential correspondence with an independent oracle"
