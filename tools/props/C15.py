PROPERTY = "C15"
LEVEL = "proof"
LEAN_MODULES = ["CifModel.Props.C15", "CifModel.Props.ReviewC15", "CifModel.Props.C15Layout", "CifModel.Props.C15Dup", "CifModel.Props.C15Events", "CifModel.Props.ReviewRC15"]
REQUIRED = ["CifModel.C15_skip_depth_balanced", "CifModel.C15_skip_depth_nonneg", "CifModel.C15_skip_depth_cif", "CifModel.C15_stop_is_last", "CifModel.C15_end_ok", "CifModel.C15_positive_aborts", "CifModel.C15_skip_opens_region", "CifModel.C15_skipped_region_silent", "CifModel.C15_syntax_only_same_log", "CifModel.C15_value_mirror", "CifModel.C15_all_continue_mirror", "CifModel.C15_all_continue_mirror_parseCB", "CifModel.C15_stored_is_structural", "CifModel.C15_skip_semantics_rest", "CifModel.C15_unfiltered_is_denote", "CifModel.C15_result_nonneg", "CifModel.C15_positive_aborts_local",
            "CifModel.C15_loop_start_local", "CifModel.C15_cex_loop_start_pinned", "CifModel.C15_loop_start_code_returned",
            "CifModel.C15_stored_is_structural_any", "CifModel.C15_stop_semantics_store", "CifModel.C15_cut_extends_pruned",
            "CifModel.C15_dup_all_continue_mirror", "CifModel.C15_events_sublist", "CifModel.C15_denote_is_grammar_denote",
            "CifModel.C15_all_continue_stores_grammar_denote", "CifModel.C15_ws_reported_in_order",
            "CifModel.C15_layout_independent", "CifModel.C15_layout_interleaving", "CifModel.C15_layout_free", "CifModel.C15_layout_callbacks",
            "CifModel.C15_layout_callbacks_doc", "CifModel.C15_layout_all_continue", "CifModel.C15_layout_all_continue_mirror",
            "CifModel.C15_layout_stop_semantics", "CifModel.C15_layout_rendered",
            "CifModel.C15_dup_structural_any", "CifModel.C15_dup_header_dropped_column", "CifModel.C15_dup_layout",
            "CifModel.C15_start_only_callbacks", "CifModel.C15_start_only_callbacks_layout",
            "CifModel.C15_dup_is_plain_without_duplicates", "CifModel.C15_dup_stop_semantics_without_duplicates",
            "CifModel.C15_dup_stop_semantics_store", "CifModel.C15_dup_cut_extends_mirror", "CifModel.C15_dup_events_sublist",
            "CifModel.C15_callbacks_formula", "CifModel.C15_callbacks_formula_layout",
            "CifModel.C15_rec_is_dup_on_wellformed", "CifModel.C15_rec_is_dup_on_wellformed_layout"]
GEN = ["ErrCodes"]
FAMILIES = ["pcb"]
TRUSTED_BASE = [
    "Lean 4.33.0 kernel; axioms propext, Classical.choice, Quot.sound only",
    "lean/CifModel/Model/ParseCB.lean is a faithful transcription of the handler call sites, syntax callbacks and skip_depth "
    "bookkeeping of parse_cif / parse_container / parse_item / parse_loop / parse_loop_header / parse_loop_packets / "
    "parse_value / parse_list / parse_table / next_token (whitespace reporting) of src/parser.c, on the well-formed paths "
    "(checked on every run by the `pcb` correspondence family in storing and syntax-only mode, under ASan+UBSan)",
    "tools/gen/pcb.py: the renderer (abstract document -> text + token sequence; the lexer itself is another group's "
    "model) and the independent implementation-level oracle; harness/x_pcb.c, harness/cifio.h",
    "lean/CifModel/Spec/Traversal.lean parts 2-4 (Doc, tokensOf, docEvents, denote, prunedDoc, cutDoc), Spec/TraversalEvents.lean "
    "(evDoc), Spec/TraversalDup.lean (dupEvents, dupDenote) as the meaning of the statements",
    "lean/CifModel/Model/ParseCBDup.lean (DUP_* diagnostics) and Model/ParseCBRec.lean (token-level recoveries; the model the pcb "
    "driver runs, cross-checked against parseCBD and parseCB on every case without the respective diagnostics)",
]
ASSUMPTIONS = [
    "documents are well-formed CIF 2.0 except that block codes, frame codes and data names (scalar items, loop headers) may "
    "repeat (same or ASCII-case-variant spelling): the DUP_* diagnostics with an error callback that accepts are modelled "
    "(Model/ParseCBDup.lean: parseCBD, run by the pcb driver and cross-checked there against parseCB on every case without a "
    "diagnostic); the recovery paths on which handler code runs — CIF_PARTIAL_PACKET (packet_end of the filled packet / pop of "
    "the skip depth), CIF_EMPTY_LOOP, CIF_NULL_LOOP (loop_end with a NULL loop, no loop_start), CIF_MISSING_VALUE (item handler "
    "with a synthetic unknown value), CIF_UNEXPECTED_VALUE, stray closing delimiters — are modelled in a third layer "
    "(Model/ParseCBRec.lean: parseCBR, the model the pcb driver runs; cross-checked there against parseCBD on every case "
    "without such a diagnostic) and covered by correspondence + oracle only, no theorem; for any other defect the model stops "
    "with MALFORMED (error recovery is property C12); a loop header that loses ALL its names is outside",
    "handlers do not modify the CIF under construction",
    "default parse options (max_frame_depth clamps to 1: one level of save frames)",
]
PARTIAL = [
    "layout: PROVED (Props/C15Layout.lean) for ALL token sequences, all programs, both modes — two token sequences that differ "
    "only in the whitespace runs / comments in front of their tokens give the same result, the same stored CIF and the same "
    "handler / data-name / keyword (and error) callbacks in the same order (C15_layout_independent, C15_layout_free; C15_dup_layout "
    "for the model with the duplicate diagnostics), and the whitespace callbacks are, in order, the layout of a prefix of the "
    "tokens (each token once): every comment, and every whitespace run except for SOME set of tokens that is the same whatever the "
    "layout (C15_layout_callbacks: 'exists marks', one mark per scanned token; the statement does NOT say which tokens these are — "
    "in the model they are the tokens scanned while the skip depth is positive, but under a skipping program nothing in a Props "
    "statement relates a positive mark to the bypassed entities of gDoc / cutDoc; only for a program that never skips all marks "
    "are <= 0; review rA, L2); WHERE the whitespace callbacks stand among the other callbacks: C15_layout_interleaving (one merged "
    "log: both complete logs are built by the same sequence of steps, a scan of next_token putting the layout callbacks of the "
    "token scanned at the same place of both logs — relative to the layout-free run, not yet a closed Spec formula over the document "
    "tree; for parseCB only: the merged-log statement for parseCBD / parseCBR exists at lemma level (Rel / LogRel in "
    "Lemmas/ParseCBLayoutDup, ..Rec) and is not exported, so the whitespace callbacks of the function the driver runs (parseCBR) are "
    "tied to these theorems by the driver's run-time cross-check of the printed logs only; review rA, L1 / W1); for a well-formed document under a program that never stops every "
    "token's layout is visited (C15_layout_callbacks_doc), with all-continue handlers the callbacks are the whole layout "
    "(C15_layout_all_continue), in the terms of Spec/Grammar's printer the concatenated callback texts are the separators l 0, "
    "l 1, … of render d l (C15_layout_rendered); all document-level theorems hold with any layout "
    "(C15_layout_all_continue_mirror, C15_layout_stop_semantics, C15_start_only_callbacks_layout).  NOT a theorem: that the "
    "scanner turns the characters of render d l into these tokens WITH this layout attached (Tok.pre): the lexer model of C01 "
    "(C01_feeds) has no whitespace callback; the tie is the correspondence run (the pcb renderer produces text and tokens with "
    "layout; the oracle now checks the whitespace callbacks under skipping / stopping programs too: layout of a token prefix, "
    "comments always, whitespace all-or-nothing per token).  C15_layout_rendered assumes that no table of the document repeats a "
    "key (decidable hypothesis hlen)",
    "which callbacks are delivered: for EVERY handler program (any callback answering CONTINUE, SKIP_CURRENT, SKIP_SIBLINGS, END or "
    "an error code), every well-formed duplicate-free document (wfDocN norm d: 'norm' is FREE in C15_callbacks_formula(_layout), "
    "C15_start_only_callbacks(_layout), C15_layout_all_continue_mirror, C15_layout_stop_semantics — they are about parseCB, which does "
    "not look at names, so the hypothesis reads 'distinct under SOME normalisation'; they are statements about the C only for norm "
    ":= the normalisation the C uses, where parseCBD norm = parseCB by C15_dup_is_plain_without_duplicates; in the run: ASCII "
    "lower-casing; review rA, F1), both modes, any layout: exactly the formula gDoc over the "
    "document tree, and the return value is its second component (Spec/TraversalEventsAll.lean, C15_callbacks_formula; the only "
    "state of the formula is the number of handler callbacks delivered); special cases: docEvents for all-continue programs, "
    "evDoc for programs steering from the start callbacks only (C15_start_only_callbacks); the STORE for every program: "
    "C15_stop_semantics_store (cutDoc).  Documents WITH duplicates: see below",
    "C15_syntax_only_same_log assumes a handler program that does not look at the (NULL in syntax-only mode) handles and that "
    "the storing parse does not stop on a frame-nesting diagnostic (input not well-formed under the options)",
    "duplicates (DUP_* diagnostics, accepting error callback; model parseCBD): DOMAIN, now a hypothesis 'hdom' IN THE STATEMENTS of "
    "C15_dup_structural_any, C15_dup_events_sublist, C15_rec_is_dup_on_wellformed(_layout) as it was in C15_dup_stop_semantics_store "
    "(review rA, A.8): the model does not answer MALFORMED, i.e. no loop header met during the parse loses ALL its names to the "
    "duplicate check (data_b _a 1 loop_ _A 2).  There parser.c carries on — loop_start with an empty name list, "
    "cif_container_create_loop answers CIF_NULL_LOOP (tolerated, no loop created), every packet gets packet_start / packet_end with an "
    "empty packet and its values are parsed without item handler, loop_end with a NULL loop (observed by replay) — while parseCBD / "
    "parseCBR stop with 1000.  NOT DONE: modelling this path (parseLoopD / parseLoopR / xLoopD / cElemD and the six lemma files "
    "that split on it) — the generator still filters the class out (inside_model), so it is covered by no theorem and by no "
    "correspondence case.  Inside the domain: for EVERY program and every well-formed document "
    "with any repetition of block codes, frame codes, scalar names and loop-header names the parse is the structural "
    "interpreter xDocD over the document tree (C15_dup_structural_any: handler steps + duplicate checks against the content "
    "stored so far, no tokens, no fuel); on duplicate-free documents no check ever fires, for every program: parseCBD = parseCB "
    "(C15_dup_is_plain_without_duplicates), so every document-level theorem transfers; all-continue: callbacks = dupEvents, store "
    "= dupDenote (C15_dup_all_continue_mirror, headers without repeats); duplicate loop-header names: C15_dup_header_dropped_column "
    "(all-continue, parse_loop level: error callback behind the data-name callback of every dropped name, loop_start / packet_end "
    "/ stored loop with the retained names and values, NO item handler for a dropped column); the STORE and the return value for "
    "EVERY program and any duplicates: C15_dup_stop_semantics_store (= cDocD, Spec/TraversalDupCut.lean: the document walked "
    "threading the handler count and the content the container holds; hypothesis: the model stays in its domain, i.e. no loop "
    "header met loses all its names); agrees with dupDenote for all-continue handlers (C15_dup_cut_extends_mirror); the CALLBACKS for every program and any "
    "duplicates: error callbacks set aside and handles / loop payloads abstracted, a sublist of the document's callbacks in "
    "document order (C15_dup_events_sublist).  NOT proved: an interpreter-free formula saying exactly WHICH callbacks (and "
    "error callbacks) are delivered for documents with duplicates under skipping / stopping programs (they are given by xDocD)",
    "recovery paths with handler code (CIF_PARTIAL_PACKET, CIF_EMPTY_LOOP, CIF_NULL_LOOP, CIF_MISSING_VALUE, "
    "CIF_UNEXPECTED_VALUE under handler programs): model layer Model/ParseCBRec.lean (parseCBR, the model the pcb driver runs) + "
    "correspondence + oracle; proved about it: on every well-formed document, with any layout, for every program it IS the "
    "model of the theorems (C15_rec_is_dup_on_wellformed(_layout): no recovery path is taken; parseCBR = parseCBD), so the "
    "correspondence run ties exactly the object of the theorems to src/parser.c; the behaviour ON the recovery paths (defective "
    "documents) has no theorem",
]
LEVEL_TEXT = ("Proof about the executable token-level models ParseCB.parseCB / parseCBD. For all token sequences and all handler programs: "
              "skip_depth balance of every production, an END / error answer is the last callback and determines the result, "
              "SKIP answers open regions that are silent and store nothing, syntax-only mode = storing mode up to handles, and LAYOUT "
              "independence: whitespace runs and comments in front of the tokens change nothing but the whitespace callbacks, which follow "
              "the layout in order (comments always, whitespace unless skipping). For every well-formed abstract document, with any layout: "
              "all-continue callbacks = document order events and store = denotation; for EVERY program store = denotation of the document "
              "with the bypassed sub-trees removed and cut at the stopping answer (cutDoc), return value = that answer if positive else "
              "CIF_OK, and the delivered callbacks and the return value = the formula gDoc (every program). Duplicates (DUP_* "
              "diagnostics): for every program the parse = the structural interpreter xDocD, store and result = cDocD; = the plain model on duplicate-free documents; "
              "all-continue mirror incl. dropped loop columns. The models are tied to src/parser.c by differential execution in storing and "
              "syntax-only mode with an independent implementation-level oracle that restates C15, duplicates and token-level recoveries "
              "under handler programs included.")
LEVEL_NOTE = ("Layout is proved at the token level (tokens carry their layout); that the scanner attaches exactly the rendered separators is "
              "correspondence. Duplicates under skipping / stopping programs: store and result characterised (cDocD), callbacks through the structural interpreter. "
              "Recovery paths with handler code (partial packet etc.): model layer + correspondence only. F33 fixed by 43d0bb7. Trusted: "
              "Lean kernel, model transcription (checked by correspondence), Spec/Traversal*.lean (Doc, docEvents, denote, prunedDoc, cutDoc, "
              "evDoc, dupEvents), renderer/oracle in tools/gen/pcb.py, harness.")
TECHNIQUE = "Lean 4 proof (fuel induction with a boundary invariant for skip_depth) + differential correspondence with an independent oracle"
