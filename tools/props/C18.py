PROPERTY = "C18"
LEVEL = "proof"
LEAN_MODULES = ["CifModel.Props.C18", "CifModel.Props.C18Text", "CifModel.Props.C18Parse", "CifModel.Props.ReviewC18"]
REQUIRED = ["CifModel.C18_stats_exact", "CifModel.C18_maxRun_spec", "CifModel.C18_delim_permitted", "CifModel.C18_delim_admissible",
            "CifModel.C18_prefers_simple", "CifModel.C18_reserved_iff", "CifModel.C18_set_unquoted_iff", "CifModel.C18_try_quoted",
            "CifModel.C18_delim_lexically_admissible", "CifModel.C18_delim_reads_back", "CifModel.C18_delim_reads_back_text",
            "CifModel.C18_set_quoted_all_kinds", "CifModel.C18_fits_limit", "CifModel.C18_delim_reads_back_value",
            "CifModel.C18_text_field_reads_back_all", "CifModel.C18_text_field_reads_back_value",
            "CifModel.C18_delim_reads_back_item", "CifModel.C18_text_field_reads_back_item"]
GEN = ["ErrCodes", "NamesConsts"]
FAMILIES = ["analyze", "reserved", "setq"]
TRUSTED_BASE = [
    "Lean 4.33.0 kernel; axioms propext, Classical.choice, Quot.sound only",
    "the scanner model Model/Lexer.lean and the lexical grammar Spec/Lexical.lean of property C01 (read-back theorem)",
    "the writer model Model/Writer.lean (write_char, write_text, fold_line) and Model/Decode.lean (decode_text) of property C02, tied by that "
    "property's families (writeval, decode) - used by C18_text_field_reads_back_all",
    "hand-written model Model/Analyze.lean (cif_analyze_string, cif_is_reserved_string, cif_value_set_quoted_impl), tied to "
    "src/utils.c / src/value.c by the families analyze (exhaustive short strings x flags x limits), reserved, setq",
    "Spec/Analyze.lean: line decomposition (LF, CR LF, CR), semicolon runs, CIF 2.0 whitespace-delimited strings and reserved forms",
    "harness/x_analyze.c (incl. the probe documents fed to the real cif_parse), x_reserved.c, x_setq.c and the oracles in tools/gen/",
]
ASSUMPTIONS = [
    "strings are NUL-free (0 ∉ s) where the C reads the terminator; length_limit >= 0",
    "read-back (C18_delim_reads_back, _text, _value, C18_fits_limit) is stated for strings of CIF 2.0 characters (`okUnits .cif2`): in "
    "particular strings containing CR are EXCLUDED from every read-back theorem - the parser normalises CR / CR LF to LF before "
    "tokenising (C08), so such a string cannot be read back identically by any presentation; the statistics theorem "
    "(C18_stats_exact) and the delimiter theorems do cover CR.  For CR-containing strings the read-back modulo EOL normalisation is "
    "checked by the `analyze` oracle only",
    "length_limit <= CIF_LINE_LENGTH for the read-back `within the length limit` (C18_fits_limit); the only caller passes the line length",
    "has_trailing_ws also counts VT (U+000B), which is not a CIF character; C18_stats_exact states both the VT form and the SP/TAB form "
    "(the latter for VT-free strings)",
]
PARTIAL = [
    "text fields: C18_delim_reads_back_text is the plain case; C18_text_field_reads_back_all / _value now cover EVERY text-field "
    "recommendation (any flags, any limit) composed with the writer's fold / prefix protocol (flags as write_char derives them from the "
    "analysis), the scanner model and decode_text / parse_value - side condition: the string consists of CIF 2.0 characters (okUnits .cif2: "
    "in particular CR-free and NUL-free); the clause 'write_char writes exactly this text field' additionally asks `cif_has_disallowed_chars s = 0` "
    "(Model.hasDisallowed: write_char validates CIF 2.0 characters with the library's own test since the repair of F-disallowed-char-written; "
    "its agreement with okUnits .cif2 is not proved here).  The multi-line triple-quote rule is `first_line + 3 <= limit` since the repair of "
    "F-key-first-line (C18_delim_admissible).  NOT covered: strings containing CR (no presentation reads back identically, see ASSUMPTIONS); "
    "`within the length limit` for a text field means no line over CIF_LINE_LENGTH (the writer folds at 2048 whatever `length_limit` "
    "says - a limit below the line length cannot be honoured by a text field whose lines exceed it and the property's caller passes 2048)",
    "read-back is proved at token level (C18_delim_reads_back: scanner model of C01) and at the level of the value parse_value builds "
    "(C18_delim_reads_back_value: `.chr (delimiter used) s`; text fields: `.chr true s`, parser model of gJ); the parser never creates number-kind values - a "
    "whitespace-delimited digit string comes back as an unquoted character value that the library interprets as a number on demand; "
    "that interpretation (cif_value_get_number) is property C10's, not read back here",
    "C18_set_unquoted_iff examines the text only for a QUOTED character value asked to become unquoted; every other kind / flag "
    "combination is C18_set_quoted_all_kinds (an already unquoted character value keeps any text - such values are made by the parser only)",
    "embedding: C18_delim_reads_back_item / C18_text_field_reads_back_item prove the step behind a data name (parse_item performs exactly "
    "cif_container_set_value(name, .chr .. s), nothing reported); embedding into a WHOLE document (block header in front, following items, "
    "loops) is the probe document of the `analyze` executor (real cif_parse; text fields additionally through the real cif_write, probe W) "
    "and, at model level, C01_parse_render / C02_roundtrip_doc of the parser / writer groups - not restated here",
]
LEVEL_TEXT = ("Proof: for every string, flag pair and limit the model's statistics equal those of the line decomposition "
              "(C18_stats_exact, by loop invariants), the recommended delimiter is permitted (C18_delim_permitted), admissible and "
              "fitting (C18_delim_admissible), simple forms are preferred on single lines with room (C18_prefers_simple), "
              "set_quoted(NOT_QUOTED) succeeds exactly for CIF 2.0 whitespace-delimited texts with the documented kind change "
              "(C18_set_unquoted_iff) and cif_is_reserved_string = reserved form (C18_reserved_iff); every recommended presentation of a string "
              "of CIF 2.0 characters reads back as exactly that string - quoted / whitespace-delimited forms directly (C18_delim_reads_back), "
              "EVERY text-field recommendation through the writer's fold / prefix protocol, the scanner and decode_text "
              "(C18_text_field_reads_back_all, _value). Model tied to the code by "
              "exhaustive differential execution; read-back through the real parser checked on every case, text fields also through the real cif_write.")
LEVEL_NOTE = ("Trusted: Lean kernel; hand-written model + correspondence; Spec/Analyze.lean as the meaning of the CIF rules. "
              "Read-back (C18_delim_reads_back, _value) is proved over the scanner model of C01 (C01_lex_value_after_ws), lifted to parse_value of the parser model, tied to the limit argument by C18_fits_limit (CIF_LINE_LENGTH regenerated) and, for text fields, "
              "over the writer model (write_text, flags of write_char) and the decode_text model of C02 (C02_text_protocol, C02_text_total, C02_analysis_facts); "
              "it is additionally observed through the real cif_parse on every case and through cif_write + cif_parse for text fields.")
TECHNIQUE = "Lean 4 proof (loop invariants, case analysis) about an executable model + exhaustive differential execution incl. read-back through the real parser"

# ---- independent review rA (notes/review/rA-review.md): instances applying the new theorems to concrete strings ----
LEAN_MODULES += ["CifModel.Props.ReviewRC18"]
