PROPERTY = "C18"
LEVEL = "proof"
LEAN_MODULES = ["CifModel.Props.C18"]
REQUIRED = ["CifModel.C18_stats_exact", "CifModel.C18_maxRun_spec", "CifModel.C18_delim_permitted", "CifModel.C18_delim_admissible",
            "CifModel.C18_prefers_simple", "CifModel.C18_reserved_iff", "CifModel.C18_set_unquoted_iff", "CifModel.C18_try_quoted"]
GEN = ["ErrCodes"]
FAMILIES = ["analyze", "reserved", "setq"]
TRUSTED_BASE = []
ASSUMPTIONS = []
PARTIAL = []
LEVEL_TEXT = "work in progress"
LEVEL_NOTE = "work in progress"
TECHNIQUE = "Lean 4 proof about an executable model + differential execution against the real code"
