PROPERTY = "C14"
LEVEL = "proof"
LEAN_MODULES = ["CifModel.Props.C14", "CifModel.Props.ReviewC14", "CifModel.Props.ReviewRC14"]
REQUIRED = ["CifModel.C14_all_continue", "CifModel.C14_refines_spec", "CifModel.C14_skip_current",
            "CifModel.C14_skip_siblings", "CifModel.C14_end", "CifModel.C14_error_propagates",
            "CifModel.C14_returns_ok_on_directives", "CifModel.C14_empty_loop", "CifModel.C14_cex_finished_pinned",
            "CifModel.C14_visits_sublist", "CifModel.C14_skip_current_tree", "CifModel.C14_skip_siblings_tree",
            "CifModel.C14_parent_end_after_skip_siblings", "CifModel.C14_returns_ok_or_empty_loop",
            "CifModel.C14_handles_refine", "CifModel.C14_handles_are_elements", "CifModel.C14_handle_queries",
            "CifModel.C14_handles_all_continue"]
GEN = ["ErrCodes"]
FAMILIES = ["walk"]
TRUSTED_BASE = [
    "Lean 4.33.0 kernel; axioms propext, Classical.choice, Quot.sound only",
    "lean/CifModel/Model/WalkH.lean (the same functions passing handles; proved to refine Walk.lean; the driver answers the "
    "executor's in-callback queries through these handles and cross-checks the two models on every case)",
    "lean/CifModel/Model/Walk.lean is a faithful transcription of cif_walk / walk_container / walk_loops / walk_loop / "
    "walk_packet / walk_item of src/cif.c (checked on every run by the `walk` correspondence family: exhaustive "
    "one-deviation handler programs per CIF, pairs and random programs, under ASan+UBSan)",
    "lean/CifModel/Spec/Traversal.lean (event tree, fullTraversal, the pruning semantics) as the meaning of C14, incl. the "
    "reading note of DESIGN.md on end callbacks after SKIP_CURRENT / SKIP_SIBLINGS",
    "harness/x_walk.c, harness/cifio.h, tools/gen/walk.py (executor, logging handlers, independent Python oracle)",
    "the navigation constants -1/-2/-3 and CIF_FINISHED/CIF_EMPTY_LOOP hard-coded in the model are compared with the "
    "compiled ones by the request `walk consts`; CIF_OK/CIF_FINISHED/CIF_EMPTY_LOOP are also linked to Gen/ErrCodes",
]
ASSUMPTIONS = [
    "the store's enumeration functions (cif_get_all_blocks, cif_container_get_all_frames/_loops, packet iteration, packet "
    "item order) are deterministic between two calls on an unchanged CIF (the executor lists the CIF after the walk and "
    "the model walks that listing); theorems hold for every order",
    "handlers do not modify the CIF during the walk",
]
PARTIAL = [
    "the property says SKIP_CURRENT suppresses 'exactly the callbacks for the descendants' and SKIP_SIBLINGS 'additionally those "
    "for the not-yet-visited siblings'; the theorems state what src/cif.c does, which removes MORE callbacks than a literal "
    "reading (C14_visits_sublist: what is delivered is always a sublist of fullTraversal; C14_refines_spec says which): "
    "(a) SKIP_CURRENT at a start callback also removes the END callback of that element (cif.h: 'bypass the current element, "
    "or at least any untraversed children'); (b) SKIP_SIBLINGS at a start callback or item also removes the element's own end "
    "callback and the END callback of its PARENT: no packet_end after an item, no loop_end after a packet_start, no "
    "frame_end / block_end after a loop_start, no cif_end after a block_start (exception: after a frame_start the parent's "
    "loops are still walked and its end callback is delivered); (c) SKIP_SIBLINGS at an END callback removes the later "
    "siblings and the parent's end callback likewise; (d) cif.h says of SKIP_SIBLINGS 'and thereafter proceed along the "
    "normal path', and cif_parse DOES deliver block_end / frame_end after a child answered SKIP_SIBLINGS (C15) — the two "
    "functions treat the same directive differently; recorded as a reading note (DESIGN.md C14), the walk oracle accepts "
    "either behaviour on these end callbacks",
    "C14_all_continue and C14_returns_ok_on_directives are restricted to CIFs without packet-less loops (entering such a "
    "loop ends the walk with CIF_EMPTY_LOOP: C14_empty_loop, C14_returns_ok_or_empty_loop); every other theorem holds for "
    "every CIF",
    "'handles passed to callbacks are valid for queries': the LOGIC of it is now a theorem about the walker model with handles "
    "(Model/WalkH.lean: a container handle = the path of positions from the list of data blocks, which fixes id, parent and kind; a "
    "loop handle = container path + position; packets / items = positions of the iteration): C14_handles_refine (forgetting the "
    "handles gives Walk.walk, every CIF, every program), C14_handles_are_elements (restated after review rA, A.2 — identity by "
    "POSITION, not by content: the (callback, handle) pairs delivered are a Sublist of the positional traversal fullTraversalH of "
    "Spec/TraversalPos.lean, which lists every element of the CIF with its position path / loop / packet / item index independently "
    "of the walker; every positional entry is resolved by lookup to the element it announces — right kind, code, category, names, "
    "items; no (callback kind, position) occurs twice, neither in the traversal nor among the delivered callbacks; forgetting the "
    "positions gives fullTraversal), C14_handles_all_continue (no packet-less loops, all-CONTINUE: exactly fullTraversalH, CIF_OK), "
    "C14_handle_queries (cif_container_assert_block / get_code / numbers of frames and loops / get_frame / get_item_loop through a "
    "container handle and get_category / get_names through a loop handle answer as for the element announced).  The hypothesis "
    "'handlers do not modify the CIF' is built in: the handle is looked up in the CIF that is walked.  What stays observed only "
    "(ASan, exact leak accounting): that the C objects behind the handles are ALIVE during the callback and released afterwards "
    "(memory validity is not a statement about the model); the executor makes the queries inside every callback and the driver "
    "answers them through the model's handles (lookup by path), so a handle of the wrong element / kind / parent shows up as a "
    "disagreement.  Loop handles are queried too (request flag lq): in loop_start / loop_end the handler opens its own packet "
    "iterator through the handle, counts the packets and closes it (the walker's own iterator is not open then); in packet_start / "
    "item / packet_end the loop handle saved at loop_start is asked for category and names while the walker's iterator IS open "
    "(read-only queries must not disturb the walk); model (qLoopPackets / qLoopCategory / qLoopNames through the handle) and "
    "oracle predict all answers.  There is no API to ask a loop handle for its container.  Not a separate statement: 'the "
    "loop_start of the enclosing loop was delivered earlier in this walk with the handle (path, i) of a packet / item handle (path, i, "
    "j..)' — the Sublist + Nodup statements fix WHICH entry of the positional traversal each callback is, that children are only "
    "delivered after their parent's start callback is C14_refines_spec on the event tree; the q... functions of C14_handle_queries are "
    "specification-level look-ups (no ids, no SQL, no normalisation of the argument), tied to container.c / loop.c by the "
    "correspondence run only",
]
LEVEL_TEXT = ("Proof about the executable model Walk.walk, for all CIFs (any shape/order) and all handler programs "
              "(arbitrary functions of invocation index and event): refinement of a declarative pruning semantics over the "
              "event tree, all-continue = depth-first flattening with CIF_OK, local SKIP_CURRENT / SKIP_SIBLINGS laws for "
              "every element kind, delivered callbacks = a sublist of the full traversal, every callback gets the handle of the element AT ITS POSITION (the delivered (callback, handle) pairs are a sublist of an independent positional traversal in which no (kind, position) occurs twice; equal to it under all-CONTINUE) and queries through it answer accordingly (walker model with handles, refining Walk.walk), END / error code = last callback and result (every CIF), directives never yield an error. The model "
              "is tied to src/cif.c by differential execution with an independent implementation-level oracle.")
LEVEL_NOTE = ("All theorems hold for every handler program (F32 fixed by d1128e2; C14_cex_finished_pinned documents the old "
              "behaviour); handles passed to callbacks: identity / kind / query answers proved for the model with handles (C14_handles_*), liveness of the C objects observed under ASan. Trusted: Lean kernel, model transcription (checked by correspondence), Spec/Traversal.lean, harness.")
TECHNIQUE = "Lean 4 proof (structural induction over the nested container type, refinement to a tree semantics) + differential correspondence"
