PROPERTY = "C14"
LEVEL = "proof"
LEAN_MODULES = ["CifModel.Props.C14", "CifModel.Props.ReviewC14"]
REQUIRED = ["CifModel.C14_all_continue", "CifModel.C14_refines_spec", "CifModel.C14_skip_current",
            "CifModel.C14_skip_siblings", "CifModel.C14_end", "CifModel.C14_error_propagates",
            "CifModel.C14_returns_ok_on_directives", "CifModel.C14_empty_loop", "CifModel.C14_cex_finished_pinned"]
GEN = ["ErrCodes"]
FAMILIES = ["walk"]
TRUSTED_BASE = [
    "Lean 4.33.0 kernel; axioms propext, Classical.choice, Quot.sound only",
    "lean/CifModel/Model/Walk.lean is a faithful transcription of cif_walk / walk_container / walk_loops / walk_loop / "
    "walk_packet / walk_item of src/cif.c (checked on every run by the `walk` correspondence family: exhaustive "
    "one-deviation handler programs per CIF, pairs and random programs, under ASan+UBSan)",
    "lean/CifModel/Spec/Traversal.lean (event tree, fullTraversal, the pruning semantics) as the meaning of C14, incl. the "
    "reading note of DESIGN.md on end callbacks after SKIP_CURRENT / SKIP_SIBLINGS",
    "harness/x_walk.c, harness/cifio.h, tools/gen/walk.py (executor, logging handlers, independent Python oracle)",
    "the navigation constants -1/-2/-3 and CIF_FINISHED/CIF_EMPTY_LOOP hard-coded in the model are compared with the "
    "compiled ones by the request `walk consts`; CIF_OK/CIF_FINISHED/CIF_EMPTY_LOOP are also linked to Gen/ErrCodes",
]
ASSUMPTIONS = [
    "the store's enumeration functions (cif_get_all_blocks, cif_container_get_all_frames/_loops, packet iteration, packet "
    "item order) are deterministic between two calls on an unchanged CIF (the executor lists the CIF after the walk and "
    "the model walks that listing); theorems hold for every order",
    "handlers do not modify the CIF during the walk",
]
PARTIAL = [
    "'handles passed to callbacks are valid for queries' is not a theorem: it is observed by the correspondence run only "
    "(every handle is queried inside every callback under ASan)",
]
LEVEL_TEXT = ("Proof about the executable model Walk.walk, for all CIFs (any shape/order) and all handler programs "
              "(arbitrary functions of invocation index and event): refinement of a declarative pruning semantics over the "
              "event tree, all-continue = depth-first flattening with CIF_OK, local SKIP_CURRENT / SKIP_SIBLINGS laws for "
              "every element kind, END / error code = last callback and result, directives never yield an error. The model "
              "is tied to src/cif.c by differential execution with an independent implementation-level oracle.")
LEVEL_NOTE = ("All theorems hold for every handler program (F32 fixed by d1128e2; C14_cex_finished_pinned documents the old "
              "behaviour); handle validity only observed under ASan. Trusted: Lean kernel, model transcription (checked by correspondence), Spec/Traversal.lean, harness.")
TECHNIQUE = "Lean 4 proof (structural induction over the nested container type, refinement to a tree semantics) + differential correspondence"
