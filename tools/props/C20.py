PROPERTY = "C20"
LEVEL = "proof"
LEAN_MODULES = ["CifModel.Props.C20", "CifModel.Props.ReviewC20"]
REQUIRED = ["CifModel.C20_table", "CifModel.C20_distinct", "CifModel.C20_nerr_is_length", "CifModel.C20_codes_unique",
            "CifModel.C20_discriminates"]
GEN = ["ErrCodes"]
FAMILIES = ["err"]
EXHAUSTIVE = True
TRUSTED_BASE = [
    "Lean 4.33.0 kernel (decide +kernel: kernel evaluation, no axioms beyond propext/Quot.sound)",
    "tools/translate.py: extraction of the #define CIF_* result codes (cif.h return_codes group) and of the "
    "cif_errlist initialiser / cif_nerr after gcc -E (cross-checked against the compiled table by family err)",
    "Spec/ErrWords.lean: the keyword table that defines 'describes that very condition' (hand-written from cif.h docs)",
    "harness/x_err.c + tools/gen/err.py (printing and comparing the compiled table)",
]
ASSUMPTIONS = [
    "a message 'describes' a condition when it contains one keyword of every group listed for the code in Spec/ErrWords.lean "
    "(and none of a negative group); the groups are discriminating on the pinned header: C20_discriminates proves that no message "
    "describes the condition of another code, so an exchange of two initialisers or a shift of the positional table is noticed",
    "'any value returned by the library' is read as 'every result code defined by the public header' (the property's own quantifier); "
    "that no function returns an undefined value is not proved",
    "C20_nerr_is_length compares two numbers extracted by the same translator (cif_nerr is defined by sizeof in cif.c): it guards the "
    "extraction, the compiled cif_nerr is compared by family err",
]
PARTIAL = []
LEVEL_TEXT = ("Proof, exhaustive: the quantifier is the finite table of result codes in cif.h. The table and the cif_errlist "
              "initialiser are re-extracted from the working tree on every run and the Lean theorems C20_table / C20_distinct / C20_discriminates / "
              "C20_nerr_is_length / C20_codes_unique are re-decided by the kernel over them; the compiled table is compared with "
              "the extracted one for every code.")
LEVEL_NOTE = ("Trusted: Lean kernel; tools/translate.py (cross-checked by printing the compiled cif_errlist); the keyword table of "
              "Spec/ErrWords.lean as the meaning of 'describes that very condition'. No axioms beyond propext/Quot.sound.")
TECHNIQUE = "Lean 4 kernel decision (decide +kernel) over data translated from the source on every run"
