PROPERTY = "C20"
LEVEL = "proof"
LEAN_MODULES = ["CifModel.Props.C20"]
REQUIRED = ["CifModel.C20_table", "CifModel.C20_distinct", "CifModel.C20_nerr_is_length", "CifModel.C20_codes_unique"]
GEN = ["ErrCodes"]
FAMILIES = ["err"]
EXHAUSTIVE = True
TRUSTED_BASE = [
    "Lean 4.33.0 kernel (decide +kernel: kernel evaluation, no axioms beyond propext/Quot.sound)",
    "tools/translate.py: extraction of the #define CIF_* result codes (cif.h return_codes group) and of the "
    "cif_errlist initialiser / cif_nerr after gcc -E (cross-checked against the compiled table by family err)",
    "Spec/ErrWords.lean: the keyword table that defines 'describes that very condition' (hand-written from cif.h docs)",
    "harness/x_err.c + tools/gen/err.py (printing and comparing the compiled table)",
]
ASSUMPTIONS = [
    "a message 'describes' a condition when it contains one keyword of every group listed for the code in Spec/ErrWords.lean",
]
PARTIAL = []
