PROPERTY = "C01"
LEVEL = "proof"
# Props.C01: the property theorems; Lemmas.CharsLink / Lemmas.LexerMask: the link theorems that tie the model to
# the regenerated tables and constants (audited together so that a changed table shows up as a failed obligation)
LEAN_MODULES = ["CifModel.Props.C01", "CifModel.Props.C01parse", "CifModel.Props.C01Render", "CifModel.Lemmas.ParserStructure", "CifModel.Lemmas.DecodeSpec", "CifModel.Lemmas.CharsLink", "CifModel.Lemmas.LexerMask",
                "CifModel.Lemmas.LexQuiet",   # C03_quiet_key_valid: built and audited here until C03.py imports it
                "CifModel.Props.ReviewC01"]
REQUIRED = [
    "CifModel.C01_lex_value", "CifModel.C01_lex_value_loop", "CifModel.C01_lex_value_after_ws", "CifModel.C01_nextValue", "CifModel.C01_lex_key",
    "CifModel.C01_lex_name", "CifModel.C01_lex_bracket", "CifModel.C01_lex_keyword",
    "CifModel.C01_lex_sep", "CifModel.C08_ws_lengthening_lexical", "CifModel.C01_lex_total",
    "CifModel.C01_line_numbers", "CifModel.C01_overlength_invariant", "CifModel.C01_overlength_iff",
    "CifModel.Model.Chars.classV2_link", "CifModel.Model.Chars.classV1_link", "CifModel.Model.Chars.classHigh_link",
    "CifModel.Model.Chars.meta_link", "CifModel.Model.Chars.tableLength_link", "CifModel.Model.Chars.Cls.code_injective",
    "CifModel.Model.Chars.mask_link", "CifModel.Model.Lexer.consts_link",
    # integrated layer (Props/C01parse.lean)
    "CifModel.C01_bare_unk_iff", "CifModel.C01_quoted_is_char", "CifModel.C01_text_is_char", "CifModel.C01_cif1_brackets_quoted",
    "CifModel.C01_cif2_brackets_invalid", "CifModel.C01_error_free_policy_independent", "CifModel.C01_cstr_id",
    "CifModel.C01_structure", "CifModel.C01_parse_render_partial", "CifModel.C01_layout_independent",
    "CifModel.C01_feeds_of_lex", "CifModel.C01_feeds_instance", "CifModel.C01_parse_render_instance",
    # the model's text-field decoder against the specification's (Lemmas/DecodeSpec.lean)
    "CifModel.C01_decodeText_spec", "CifModel.C01_wfVal_enc_of_spec", "CifModel.C01_wfVal_enc_plain",
    "CifModel.Lemmas.DecodeSpec.decodeText_marked_general",
    # the lexical glue in general and the end-to-end theorems (Props/C01Render.lean, Lemmas/FeedsRender.lean)
    "CifModel.C01_feeds", "CifModel.C01_parse_render", "CifModel.C01_layout_independent_render",
    "CifModel.C01_presentation_independent", "CifModel.C01_render_instance_hyps", "CifModel.C01_render_instance",
    # save frames nested to any depth
    "CifModel.Model.Parser.elemsV", "CifModel.C01_render_nested_hyps", "CifModel.C01_render_nested_instance",
]
GEN = ["CharClass", "ErrCodes"]
FAMILIES = ["lex", "parsedoc", "align"]   # align: well-formed constructs on every refill / compaction / doubling point of the buffers (shared with C08)
TRUSTED_BASE = [
    "Lean 4.33.0 kernel; axioms used: propext, Classical.choice, Quot.sound only (audited per theorem); decide +kernel for the "
    "160-entry class tables, the metaclass table and the 65536 code units of mask_link",
    "tools/translate_chars.py: the macro texts of INIT_V2_SCANNER / SET_V1 / CLASS_OF / METACLASS_OF and the class, metaclass, "
    "UCHAR_* and limit constants are cut out of the CURRENT parser.c / ciftypes.h / value.h, compiled with gcc and run; the "
    "printed tables become Gen/CharClass.lean (cross-checked by the lex correspondence, which runs the real tables)",
    "Spec/Lexical.lean: the lexical grammar of CIF 2.0 / CIF 1.1 (allowed characters, the six presentations of a string value, "
    "reserved words, whitespace atoms, line/column counting) hand-written from the specifications",
    "harness/x_lex.c (drives the real static next_token of parser.c via #include, scanner_s initialised as cif_parse does) and "
    "tools/gen/lex.py (generator, renderer with position tracking, implementation-level oracle)",
    "the hand-written model Model/Lexer.lean is trusted only as far as the lex correspondence observes it: token type, value "
    "text, line, column of every token and (code, line) of every report, CIF 2.0 and CIF 1.1 mode, accept-all and reject-at-k",
]
ASSUMPTIONS = [
    "line terminators have been normalised to LF before the scanner sees the text (get_more_chars; property C08) — the line-"
    "number and line-length theorems assume input without CR; the model itself keeps the CR branches of HANDLE_EOL and they "
    "are exercised by the correspondence through a pre-loaded buffer",
    "code units are 16-bit (mask_link covers 0..65535)",
    "the default parse options (no extra whitespace / end-of-line characters): the class tables are those of "
    "INIT_V2_SCANNER(s, NULL, NULL)",
]
PARTIAL = [
    "lexical layer: proved (Props/C01.lean).  Integrated layer (Props/C01parse.lean): proved are the value-construction theorems "
    "C01_bare_unk_iff ('?' / '.' read as unknown / not-applicable exactly when unquoted), C01_quoted_is_char / C01_text_is_char, "
    "C01_cif1_brackets_quoted / C01_cif2_brackets_invalid, C01_error_free_policy_independent, and C01_STRUCTURE: over the token "
    "sequence of every well-formed abstract document of Spec/Grammar.lean (blocks, save frames NESTED TO ANY DEPTH — for a parser whose max_frame_depth is negative; one level when it is 1 —, scalars, loops, lists / "
    "tables of any depth, every presentation incl. folded / prefixed text fields) the productions report nothing, return CIF_OK and "
    "store exactly denote(d), under every policy (Lemmas/ParserStructure.lean: `elemsV`, the element loop of a container at any depth, by recursion through the nested frames with the store view composed along the path — View.child).  "
    "C01_PARSE_RENDER is proved WITHOUT a hypothesis about the scanner (Props/C01Render.lean): C01_feeds (Lemmas/FeedsRender.lean) "
    "shows, by ONE induction over the typed pieces of the rendering and the scanner group's C01_lex_* theorems, that for every "
    "document and layout accepted by the decidable predicate C01_feedOk (strings admissible in their presentation, non-blank names "
    "and codes, quoted keys, brackets / keys / triple quotes in CIF 2.0 only; separators of well-formed atoms, non-empty where a "
    "token needs whitespace, no comment glued to a token, text fields at the beginning of a line and ';'-led bare values not) whose "
    "rendering has no line over 2048 characters, the scanner hands out exactly tokensOf(d) silently; C01_parse_render = "
    "C01_parse_render_partial o C01_feeds (fuel and first-character side conditions discharged too), C01_layout_independent_render "
    "and C01_presentation_independent follow.  C01_feedOk is a predicate of its own beside gJ's layoutOk (neither implies the "
    "other: a text field directly behind a table key is not renderable by the printer and is refused; optional separators may "
    "not begin with a comment when they follow a value); "
    "The well-formedness predicate admits a text field `.enc text body` when the MODEL's decode_text maps body to text; "
    "C01_decodeText_spec / C01_wfVal_enc_of_spec / C01_wfVal_enc_plain tie that to the SPECIFICATION's decoder (Spec/TextProtocol.lean): "
    "every marked body with any admissible prefix, folded or not, any blanks behind the marker, and every unmarked body are admitted "
    "(options: unfolding and prefix removal on).  "
    "C01_parse_render_full stays a def.  Instances "
    "incl. the three combinations named in the property's rationale are evaluated by the kernel, and the quantifier over documents "
    "x layouts at the character level is covered by the `parsedoc` correspondence family (grammar-directed "
    "documents x random layouts through the real parser, oracle: no callback, dump = denote(doc) computed in Python).",
]
LEVEL_TEXT = ("Proof (partial: lexical layer). Lean theorems about an executable model of next_token and the scan_* functions: "
              "every admissible presentation of every string is read back as one token with exactly that text, consuming "
              "exactly the presentation, with no report (C01_lex_value, C01_lex_key); whitespace/comment runs of any shape are "
              "transparent (C01_lex_sep, C08_ws_lengthening_lexical); the scanner is total and makes progress "
              "(C01_lex_total); token line numbers are 1 + consumed terminators and CIF_OVERLENGTH_LINE is reported for exactly "
              "the lines longer than 2048 characters, for arbitrary input and any callback policy (C01_line_numbers, "
              "C01_overlength_invariant, C01_overlength_iff). The model is tied to the sources by class tables regenerated on "
              "every run (link theorems re-decided by the kernel) and by differential execution against the real next_token.")
LEVEL_NOTE = ("Partial: only the lexical layer of C01 (the integrated parser group extends it). Trusted: Lean kernel; "
              "tools/translate_chars.py; Spec/Lexical.lean as the reading of the CIF grammars; harness/x_lex.c + tools/gen/lex.py. "
              "The model's algorithmic fidelity is observed by the lex correspondence (token type/text/line/column and "
              "(code, line) of reports), not proved. Theorems about line numbers/line length assume CR-free (LF-normalised) "
              "input.")
TECHNIQUE = ("Lean 4 proofs (structural induction over strings / whitespace atoms, conserved-quantity invariants over all scan "
             "functions) about an executable model, tables regenerated from the source on every run, differential "
             "correspondence with the real code under ASan/UBSan")
