# store part of property C17 (a failed allocation yields an error code, not a crash or corruption): theorem C17_atomic_under_fault and
# the `storefault` correspondence family.  Written by group gF for the coordinator to fold into tools/props/C17.py
# (LEAN_MODULES += CifModel.Props.C17Store, FAMILIES += storefault).  Runs stand-alone as `tools/check.py C17S`.
PROPERTY = "C17"
LEVEL = "proof"
LEAN_MODULES = ["CifModel.Props.C17Store", "CifModel.Props.C04", "CifModel.Model.StoreSchema"]
REQUIRED = ["CifModel.C17_atomic_under_fault", "CifModel.C17_abs_unchanged", "CifModel.C17_close_fault_is_abort",
            "CifModel.C04_inv_reachable", "CifModel.Store.C05_paths_link"]
GEN = ["ErrCodes", "Schema"]
FAMILIES = ["storefault"]
TRUSTED_BASE = [
    "Lean 4.33.0 kernel; axioms propext, Quot.sound, Classical.choice only",
    "Model/StoreFault.lean: the documented failure paths (failure before the transaction statement returns at once; a failure inside runs the "
    "function's ROLLBACK / ROLLBACK_NESTTX / ROLLBACK_TO); per-function macro uses tied to the sources by C05_paths_link",
    "harness/alloc.h fault injection (k-th allocation of SQLite's / ICU's allocator), harness/x_storefault.c, tools/gen/storefault.py",
]
ASSUMPTIONS = ["SQLite undoes a failing statement (statement-level atomicity) and ROLLBACK / ROLLBACK TO succeed after an allocation failure"]
PARTIAL = ["cif_create, cif_destroy, cif_pktitr_abort are not covered by stepFault; cif_pktitr_close's failing COMMIT is C17_close_fault_is_abort",
           "memory safety under faults is observed by the sanitised executor only"]
LEVEL_TEXT = "Proof about the modelled rollback paths + fault-injected histories on the real code"
LEVEL_NOTE = "see PARTIAL"
TECHNIQUE = "Lean 4 proof on a transactional store model + allocation-fault injection on API histories"
