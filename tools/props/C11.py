PROPERTY = "C11"
LEVEL = "proof"
LEAN_MODULES = ["CifModel.Props.C11", "CifModel.Props.ReviewC11"]
REQUIRED = ["CifModel.C11_table", "CifModel.C11_tree_link", "CifModel.C11_table_tree", "CifModel.C11_version", "CifModel.C11_wrong_encoding",
            "CifModel.C11_bom_only_first", "CifModel.C11_bom_token_start", "CifModel.C11_bom_between_tokens", "CifModel.C11_same_version_any_signature",
            "CifModel.C11_terminators", "CifModel.C11_cex_named_default_ignored", "CifModel.C11_cex_magic_not_token",
            "CifModel.C11_cex_terminator_forgotten"]
GEN = ["ParseConsts"]
FAMILIES = ["dialect"]
EXHAUSTIVE = True
TRUSTED_BASE = [
    "Lean 4.33.0 kernel; axioms propext, Quot.sound, Classical.choice only",
    "Model/Dialect.lean as a description of the cascade of cif_parse() (ciffile.c) and the start of cif_parse_internal() "
    "(parser.c): tied by family `dialect`, which runs the REAL cif_parse on an in-memory file for every cell of the table and "
    "observes the converter name passed to ucnv_open, the version the scanner ended up with, the error log and the content",
    "Spec/DialectTable.lean and the Python oracle of tools/gen/dialect.py: two independent transcriptions of the documented "
    "rules (cif.h: struct cif_parse_opts_s; property C11)",
    "tools/translate_consts.py: MAGIC_LENGTH/MAGIC_EXTRA, the magic strings, CIF1_MAX_CHAR, CHAR_TABLE_MAX, UCHAR_BOM, the "
    "textual form of the two character tests used by C11_bom_only_first, and which variant of two branches of cif_parse() the "
    "sources contain (fallbackUsesNamedDefault, rawMagicChecksFollowingByte)",
    "ICU (ucnv_detectUnicodeSignature, the converters, the alias table, the system default converter): observed, not modelled; "
    "the model is told what the default names resolve to and whether the opened converter decodes the file's bytes",
    "harness/x_dialect.c (+ cifio.h canonical dump), tools/gen/dialect.py",
]
ASSUMPTIONS = [
    "a version comment is the first token of the text, exactly ten characters, followed by CIF whitespace (LF, CR - also as the "
    "first half of CR LF -, blank, tab) or the end of the input; each of these terminators is a dimension of the exhaustive table "
    "(`consistent` in the theorem; magic-like comments such as #\\#CIF_2.01 are covered by the correspondence run only, and for "
    "1 <= prefer_cif2 <= 19 the oracle accepts either version for them because the documentation does not say whether they are "
    "'a comment for another version' or 'no version comment')",
    "without a signature and without force_default_encoding the version comment has to be readable in the raw bytes "
    "(ASCII-compatible encodings); a UTF-16/32 file without signature therefore carries no version comment for the purpose of "
    "version selection",
    "when the converter forced on the input (or announced by a wrong signature) does not decode it, nothing is demanded of the "
    "version found for 0 <= prefer_cif2 < 20",
]
PARTIAL = [
    "'the same text supplied in any encoding recognised by its signature yields the same content': PROVED is that the two inputs are "
    "parsed under the same CIF version with the same report about an initial BOM (C11_same_version_any_signature); that both byte "
    "sequences DECODE to the same code units is ICU's converter (ucnv_*), which is not modelled - observed by family `dialect` on the "
    "property's table of encodings; given equal units, equal content is the determinism of the parser model (Model.Parser.parse is a "
    "function of dialect, options and units)",
    "'a byte-order mark is accepted only as the very first character': proved about the tied scanner / parser models (Model/Lexer = next_token and "
    "the scan_* functions, family `lex`; Model/Parser.disallowedInitial / afterFirst = get_first_char / cif_parse_internal, family `parse`): "
    "C11_bom_only_first (not refused as initial character; reported for CIF 1.1; one CIF_DISALLOWED_CHAR wherever a scanner function meets it "
    "INSIDE a token), C11_bom_token_start (U+FEFF where a token may begin, every callback policy, both dialects, with or without whitespace "
    "in front: scan_ws does not take it, next_token's default branch starts a whitespace-delimited value with it, SCAN_UCHAR reports "
    "CIF_DISALLOWED_CHAR - once in CIF 2.0 mode, twice in CIF 1.1 mode - and keeps the character) and C11_bom_between_tokens (any position in "
    "the input, any whitespace / comment run in front, any value characters behind: accept-all gives the value token `U+FEFF...` and exactly "
    "that one report (CIF 1.1: two), the die handler ends with CIF_DISALLOWED_CHAR).  What the theorems do not say: that a U+FEFF in front of a "
    "token with a case of its own (`_name`, quote, bracket) turns THAT token into part of a bare value - it follows from C11_bom_token_start's "
    "continuation (scan_unquoted goes on behind the mark) but is not spelled out per token type",
    "the abstraction of the input to a `Header` (what the raw-byte tests and the decoder show of it) is tied by family `dialect` "
    "(exhaustive table) - not proved; an input that is empty after its optional BOM (`noText`) is outside the theorems: no version is resolved",
]
LEVEL_TEXT = ("Proof: C11_table covers every prefer_cif2 : Int (reduced to its four documented ranges by omega), every consistent "
              "input header, both values of force_default_encoding and every default-encoding situation; C11_version, "
              "C11_wrong_encoding, C11_bom_only_first, C11_bom_token_start / C11_bom_between_tokens (scanner level: U+FEFF at a token boundary), C11_same_version_any_signature cover the remaining clauses. The tie to the "
              "code is exhaustive over the 30 000-cell table of the property plus boundary inputs, through the real cif_parse.")
LEVEL_NOTE = ("Trusted: Lean kernel; the hand-written cascade model (exhaustively corresponded on the property's table); "
              "translate_consts.py; the two independent transcriptions of the documentation; ICU is observed, not modelled. "
              "C11_table is stated for either variant of the cascade's last branch; C11_tree_link (re-decided against the sources "
              "on every run) establishes that the tree has the repaired variants (G3, G4), which C11_table_tree then uses; the "
              "tree before the repairs is refuted by C11_cex_named_default_ignored / C11_cex_magic_not_token.")
TECHNIQUE = "Lean 4 proof (range split by omega + finite case analysis) over a model of the selection cascade + exhaustive differential execution of the real cif_parse"

# ---- group gV: the byte-level character source ----
LEAN_MODULES += ["CifModel.Props.C08Stream"]
REQUIRED += ["CifModel.C11_utf16_incremental"]
FAMILIES += ["ustream"]
PARTIAL += [
    "byte level: the UTF-8 and UTF-16LE/BE converters are now modelled (Model/Ustream.lean, tied to ICU by family `ustream`) and "
    "proved incremental (C11_utf16_incremental, C08_utf8_incremental): each delivers its one-shot decoding under any buffer / "
    "request alignment; that the UTF-8 and the UTF-16 encoding of the same text decode to the SAME units "
    "(C11_same_units_any_signature_full) is stated but not proved — it needs the encoders and their round-trip arithmetic",
]
REQUIRED += ["CifModel.C11_same_units_any_signature_partial"]
PARTIAL += [
    "C11_same_units_any_signature_partial proves the statement of C11_same_units_any_signature_full (a `def … : Prop` in "
    "Props/C08Stream.lean) for ASCII text only — the characters CIF syntax itself consists of; non-ASCII scalar values are missing",
]

# ---- independent review rA (notes/review/rA-review.md) ----
LEAN_MODULES += ["CifModel.Props.ReviewRC11"]
