PROPERTY = "C05"
LEVEL = "proof"
LEAN_MODULES = ["CifModel.Props.C05", "CifModel.Props.C04", "CifModel.Model.StoreSchema", "CifModel.Props.ReviewC06"]
REQUIRED = ["CifModel.C05_atomic", "CifModel.C05_next_call_unaffected", "CifModel.C05_failed_call_restores_store", "CifModel.Store.C05_paths_link",
            "CifModel.C04_inv_reachable", "CifModel.C04_inv_gives_loop_keys", "CifModel.Store.schema_txmacros_link",
            "CifModel.C05_atomic_reachable", "CifModel.C05_failed_set_category_keeps_handle"]
GEN = ["ErrCodes", "Schema"]
FAMILIES = ["store"]
TRUSTED_BASE = [
    "Lean 4.33.0 kernel; axioms propext, Quot.sound, Classical.choice only (audited per theorem)",
    "tools/translate_schema.py (transaction-macro uses per function, macro expansions, schema) with the `decide` link theorems of Model/StoreSchema.lean",
    "SQLite's transaction semantics as modelled: BEGIN fails inside a transaction, ROLLBACK restores the BEGIN snapshot, `rollback to s` restores "
    "the innermost savepoint's snapshot and keeps the savepoint (assumed; sqlite3_get_autocommit and the raw dump are observed after every op)",
    "harness/x_store.c, tools/gen/store.py (50% failing ops, each failure kind x offending position, inside and outside an iterator; every combination of "
    "{nested-savepoint call inside an open iterator} x {1..3 successful updates} x {failing iterator call} x {close, abort}), lean/Driver/Fam/Store.lean",
]
ASSUMPTIONS = ["prepared-statement recycling (PREPARE_STMT/DROP_STMT) is abstracted away: a statement is always usable; a stale statement would show as a "
               "later call failing in the correspondence run"]
PARTIAL = [
    "'a following valid call behaves as if the failed one had never been made' (C05_next_call_unaffected) compares the rest of the history "
    "with the CIFs put back but with the HANDLE tables as the failed call left them: a failed cif_loop_set_category through a STALE handle (its "
    "loop is gone) still updates the handle's cached category (loop.c:232; the model follows the C). Through a valid handle the handle is "
    "unchanged (C05_failed_set_category_keeps_handle); the stale-handle call is out of contract (Model/StoreContract inContract)",
    "C05_atomic speaks about the relational content, the BEGIN snapshot and the savepoint stack (left-over savepoints are snapshots of the "
    "unchanged content); the abstraction to the documented model (absW) of a failed in-contract call is covered by C04_refines for all 31 ops (the spec functions return their state unchanged on every failure by inspection of Spec/StoreSpec; not stated as a theorem of its own)",
]
LEVEL_TEXT = ("Proof: for EVERY op of the model (31 ops, arbitrary argument lists — so the offending element at every position — inside or outside "
              "an open iterator's transaction) a non-OK result leaves the content, the BEGIN snapshot and the autocommit status of every CIF unchanged.")
LEVEL_NOTE = ("Left-over savepoints after a nested rollback are shown to be snapshots of the unchanged content and invisible to every later call "
              "(step_wsim / run_wsim), so the second half of the property holds inside iterator transactions too. Trusted: Lean kernel, translator, SQLite semantics as modelled, executor/generator/oracle.")
TECHNIQUE = "Lean 4 proof (case analysis over all API ops on a transactional relational model) + differential execution with constructed failing calls"
