PROPERTY = "C07"
LEVEL = "proof"
LEAN_MODULES = ["CifModel.Props.C07", "CifModel.Props.C07Parser", "CifModel.Model.ParserTrace", "CifModel.Model.ParserStoreOps", "CifModel.Lemmas.ParserTrace", "CifModel.Lemmas.ParserValues", "CifModel.Props.ReviewC07",
                "CifModel.Model.StoreRead", "CifModel.Lemmas.StoreReadPaths", "CifModel.Props.C07Read", "CifModel.Props.C07ReadParser"]
REQUIRED = ["CifModel.C07_serialize_roundtrip", "CifModel.C07_serialize_buffer", "CifModel.C07_buf_write_terminates",
            "CifModel.C07_buf_write_ok", "CifModel.C07_default_cap_ok", "CifModel.C07_columns_roundtrip",
            "CifModel.C07_schema_link", "CifModel.C07_numb_in_list", "CifModel.C07_numb_in_list_full", "CifModel.C07_constructible_wf", "CifModel.C07_constructible_columns", "CifModel.C07_numb_produced_consistent",
            "CifModel.C07_constructible_roundtrip", "CifModel.C07_store_read", "CifModel.C07_store_read_loop_routes",
            "CifModel.C07_store_read_delivers_cells", "CifModel.C07_stored_read_identical", "CifModel.C07_refused_not_stored", "CifModel.C07_numb_in_list_partial", "CifModel.C07_numb_list_roundtrip",
            "CifModel.C07_parser_route", "CifModel.C07_parser_values_numbFree", "CifModel.C07_numbFree_constructible", "CifModel.Model.Parser.values_numbFree", "CifModel.Model.Parser.storeTrace_wf", "CifModel.Model.Parser.parseT_out", "CifModel.Model.Parser.parse_replay",
            "CifModel.C07_routes_stored", "CifModel.C07_iter_read_identical", "CifModel.C07_walk_read_identical", "CifModel.C07_walk_item_event", "CifModel.C07_walk_block_position", "CifModel.C07_walk_frame_position",
            "CifModel.C07_iteration_is_stored", "CifModel.C07_item_loop_handle", "CifModel.C07_number_read_identical",
            "CifModel.C07_get_value_flag", "CifModel.C07_set_value_flag", "CifModel.C07_read_paths_identical", "CifModel.C07_parser_read_paths",
            "CifModel.Store.drain_spec", "CifModel.Store.readLoop_spec", "CifModel.Store.readLoop_cell", "CifModel.Store.walk_delivers_item",
            "CifModel.C07_cex_buf_write_pinned", "CifModel.C07_cex_buf_write_cap1", "CifModel.C07_cex_empty_digits"]
GEN = ["ErrCodes", "ValueCols"]
FAMILIES = ["ser", "storeval"]
TRUSTED_BASE = [
    "Lean 4.33.0 kernel; axioms propext, Classical.choice, Quot.sound only (audited per theorem on every run)",
    "word-level abstraction of the serialisation buffer: one word per cif_buf_write call, memcpy of a word is lossless and "
    "the deserialiser reads at the same boundaries (widths = sizeof of the C types, printed by the executor and compared)",
    "tools/translate_valuecols.py: extraction of the item_value CHECK constraints, of the value-column order of the five SQL "
    "statements and of the bind/column offsets inside SET_VALUE_PROPS / GET_VALUE_PROPS, DEFAULT_SERIALIZATION_CAP, enum values",
    "harness/x_ser.c, x_storeval.c, x_gg.h, cifio.h and tools/gen/{ser,storeval,ggvals}.py (executors, dumpers, generators, oracles)",
    "SQLite: a bound UTF-16 text / blob / integer comes back unchanged for well-formed NUL-free text; unbound parameters are NULL",
    "Model/Numb.parseNumb (group gB) as the model of cif_value_parse_numb (compared with the real parser on every number the "
    "families contain)",
]
ASSUMPTIONS = [
    "WHICH value cif_container_get_value delivers for an item with several packets: GET_VALUE_SQL (src/internal/sql.h) has no `order by`; "
    "the store model's valuesOf returns the rows in ascending row number because SQLite is assumed to serve the query by scanning the "
    "primary-key index (container_id, name, row_num) of item_value.  C07_get_value_flag's `the value of the packet with the lowest row "
    "number` rests on that assumption (observed by families storeval — parseloop, additem — and store, not derivable from the sources; "
    "cif.h promises only `one of the values`).  The CODE (CIF_OK / CIF_AMBIGUOUS_ITEM / CIF_NOSUCH_ITEM) does not depend on it",
    "the double cif_value_get_number computes for column `val` is never a NaN (SQLite would store NULL and the CHECK constraint "
    "would refuse the row); observed for huge / tiny exponents by family storeval",
    "values are smaller than the address space (serialised size < 2^64 bytes) — hypothesis of C07_serialize_buffer / wfValue",
    "group gF's store model (Model/Store.lean, Model/PktItr.lean) keeps a value V per (container, item, row) where the C keeps a "
    "row of columns; Model/StoreCodec.lean composes the two: every value goes through image = fromColumns . checks . toColumns on "
    "its way into the table, i.e. a cell of the store model holds what the bound columns denote (encode and decode are applied "
    "together at write time; the C decodes at read time — the same function of the bound row, SQLite returning bound columns "
    "unchanged is in TRUSTED_BASE). C07_stored_read_identical is about these composed operations; that the store model follows "
    "container.c / loop.c / pktitr.c is property C04's correspondence; each route is also exercised end to end by family storeval",
    "cif_table_serialize writes `key_orig == key ? NULL : key_orig`; the model's serEntries always writes the original key as a "
    "string (second branch): table entries built through the public API never share the two blocks (cif_map_set_item allocates "
    "key_orig separately, the clone duplicates both) — proved at heap level for the API's constructors (C19: mapSetItemH, "
    "buildEntries) but ASSUMED here for every table that reaches the serialiser; family ser compares the real bytes",
]
PARTIAL = [
    "route `parser` (cif_parse storing what it read): C07_parser_route (Props/C07Parser.lean) — the parser model stores through exactly two "
    "API functions, cif_container_set_value and cif_loop_add_packet (Model/ParserTrace.lean records every store call of every production; "
    "Lemmas/ParserTrace: forgetting the trace gives Model.Parser.parse exactly, C03_parser_trace; the executor of family `parse` counts the "
    "same calls of the real parser, in order, and compares them on every request); for every recorded call of every parse (any input, "
    "policy, options, initial content), in every store state satisfying the invariant, the value is read back identical (composition "
    "with C07_stored_read_identical).  The hypotheses of that theorem are discharged for the parser: set_value is only recorded under a valid "
    "data name, and no value the parser hands to the store contains a number object (C07_parser_values_numbFree, from "
    "Lemmas/ParserValues.values_numbFree: what parse_value / parse_list / parse_table return, under every policy), hence every such value is "
    "constructible (C07_numbFree_constructible).  LEFT as hypothesis: C07_fits (serialised size below the address space).  NOT proved: that the "
    "STATE in which the parser makes the call satisfies the store invariant and that the call succeeds there — that is the composition of "
    "the whole history with the store model (C03_parser_store_refines_full, see C03), which the model driver executes on every request with "
    "a fresh target (sto=ok) but which is not proved.  Family storeval route parse (values of 70 000 - 300 000 units) carries the end-to-end claim",
    "read paths cif_pktitr_next_packet and cif_walk (group gY, Props/C07Read.lean): PROVED for every state satisfying GoodS (store "
    "invariants + every packet total + row numbers below last_row_num: what every in-contract history reaches, C04), every storing "
    "route (set_value existing / new item, add_item, add_packet, update_packet followed by close) and every constructible value that "
    "fits — C07_iter_read_identical: through any valid handle of the item's loop, cif_loop_get_packets + next_packet until it stops "
    "(readLoop of Model/StoreRead = getPackets / nextPacket of Model/PktItr) ends with CIF_FINISHED after one packet per row, in row "
    "order, and the packet of the row stored into answers the stored value for the item; C07_walk_read_identical: Walk.walk with the "
    "all-continue program on the tree the walker reads from the store (wcifOf: all_blocks / all_frames / all_loops / get_names / "
    "get_packets / next_packet) is the full depth-first traversal of that tree and returns CIF_OK, and — POSITIONALLY (restated after review rB) — the loop node walk_loop "
    "shows for the handle is among the loops of the node of the item's OWN container, has one packet per row, and the packet at the "
    "position of the row stored into contains (item, stored value): the item callback that receives the value is the one of that "
    "container, loop and packet (C07_walk_item_event is the old position-free corollary); C07_parser_read_paths: the same for "
    "every store call the parser model records.  NOT proved / hypotheses left: (i) the walk theorem assumes that the CIF has no "
    "packet-less loop (cif_walk stops at one with CIF_EMPTY_LOOP, C14_empty_loop) and takes the position of the item's container in "
    "the walker's tree as a hypothesis (InCont: discharged for data blocks by C07_walk_block_position and for a save frame at any "
    "depth by C07_walk_frame_position, given the chain of frames leading to it and that the chain is no longer than the walker's depth "
    "bound, number of save frames + 1 — that every chain of a reachable store is that short is not proved here); (ii) the walk statement is for handlers that always continue — what a "
    "handler's navigation answers suppress is C14's business; (iii) Model/StoreRead composes existing models in the order cif.c calls "
    "the C functions (walk_loop: get_packets, next_packet..., close) and assumes that a read-only walk leaves the store as it is between "
    "loops (closeIter after an iteration without updates commits an unchanged database: C06_close_commits) — the composition is tied to "
    "the real cif_walk by family storeval (mw= field, every request), not by a theorem about cif.c; (iv) update_packet is followed by "
    "cif_pktitr_close in the theorem (a second iterator cannot be opened inside the first one's transaction)",
    "the numeric double value (column `val`, cif_value_get_number): the column model still treats the column as content-free "
    "(`SqlVal.real`) because the reader never consults it; C07_number_read_identical proves what matters instead: for every number "
    "object the API can produce, get_number / get_su (Model/Numb.getNumber / getSu) of the object rebuilt from the columns, and of a "
    "character value carrying only its TEXT (deserialised list element, parser route's lazy coercion), give the doubles of the object "
    "stored (via C10_init_text_roundtrip / C10_autoinit_text_roundtrip for init_numb / autoinit_numb objects).  That the real "
    "cif_value_get_number computes Model/Numb.getNumber is property C10 (families numb / todbl); family storeval additionally compares "
    "the doubles of every top-level number read back (d= field) with the model's, bit for bit.  NaN in column `val`: ASSUMPTIONS",
    "several packets: the flag is pinned — C07_get_value_flag (any Good state: no packet CIF_NOSUCH_ITEM, one packet CIF_OK, two or more "
    "CIF_AMBIGUOUS_ITEM with the value of the packet of lowest row number — `first` only under the ASSUMPTION on SQLite's scan order of "
    "the primary-key index: GET_VALUE_SQL has no order by) and C07_set_value_flag (after set_value on an existing item: (v, n >= 2) with n "
    "the number of packets of the item's loop, which the call leaves unchanged: loopRows before = loopRows after, second conjunct); "
    "for the other routes the flag follows from C07_get_value_flag in the state read; family storeval compares the code (f=)",
    "independence of the stored copy from the caller's object: immediate in the model (values are immutable); at the C level "
    "observed by family storeval (the object is changed and released before reading back) under ASan",
]
LEVEL_TEXT = ("Proof about an executable Lean model of the serialiser/deserialiser, the write buffer with its growth loop as "
              "written, and the value<->column mapping with the schema's CHECK constraints (re-extracted from the sources on every "
              "run): round trip for every value at any depth and size, termination and in-bounds writes of the buffer, column round "
              "trip, numbers from every number-producing API function re-parse to their fields and pass the CHECK constraints "
              "(bridge constructible -> well-formed), and — store model of C04 composed with the codec (Model/StoreCodec: every value "
              "enters the table through fromColumns . checks . toColumns) — for every constructible value: stored through set_value, "
              "add_item, add_packet or iterator update, both reading statements (GET_VALUE_SQL, GET_LOOP_VALUES_SQL) return it "
              "identical; set_value -> get_value at API level with the two answers separated (ok(v) iff the loop has a packet) and the "
              "several-packets flag pinned (C07_get_value_flag, C07_set_value_flag); the two packet-delivering read paths themselves "
              "(Props/C07Read.lean): a packet iterator opened afterwards delivers the stored value in the packet of the row "
              "(C07_iter_read_identical, composition of the C06 packet theorem over the whole iteration with the codec round trip), "
              "cif_walk's item handler receives it (C07_walk_read_identical, through C14_all_continue), also for the parser's store "
              "calls (C07_parser_read_paths), and the doubles of a number read back equal those of the number stored "
              "(C07_number_read_identical). Tied to the C by differential execution: family ser (real serialise -> free -> deserialise, direct calls of "
              "cif_buf_write) and family storeval (five storing routes x three read-back paths through SQLite; the model driver makes the "
              "executor's calls on the store model composed with the codec and answers through its get_value, packet-iterator and walk "
              "models, field by field, plus get_value's code and the doubles).")
LEVEL_NOTE = ("C07_numb_in_list is proved at full strength (numbers from parse_numb, init_numb, autoinit_numb, create/init, via group "
              "gB's initNumb_roundtrip = C10_init_text_roundtrip / C10_autoinit_text_roundtrip; C07_numb_in_list_full states it together with the serialise -> deserialise round trip). Trusted: word-level buffer "
              "abstraction, translator extension, SQLite's faithful storage of bound values, executors/oracles.")
TECHNIQUE = "Lean 4 proof (mutual structural induction with cost-bounded fuel; invariant of the write buffer) + differential execution"

# ---- group gX: route `parser` in the real composed state; review rA on C07_parser_route ----
LEAN_MODULES += ["CifModel.Lemmas.ParserStoreSim", "CifModel.Lemmas.ParserStoreRun", "CifModel.Lemmas.ParserStoreSimF",
                 "CifModel.Lemmas.ParserStoreRunF", "CifModel.Lemmas.ParserTraceShape", "CifModel.Props.ReviewRC07"]
REQUIRED += ["CifModel.C07_parser_route_store", "CifModel.C07_parser_route_store_partial", "CifModel.ParserSimF.rep_setVal_reads",
             "CifModel.ParserSimF.reads_new", "CifModel.ParserSimF.reads_existing", "CifModel.ParserSimF.prefix_rep",
             "CifModel.ParserSim.rep_setVal_reads", "CifModel.ParserSim.prefix_rep"]
PARTIAL += [
    "group gX — route `parser` in the REAL COMPOSED STATE (review rA: C07_parser_route quantifies over an arbitrary InvS state, handle and name "
    "unrelated to the call's path): C07_parser_route_store — for EVERY parse into a new CIF (save frames included) and its j-th recorded "
    "cif_container_set_value(path, n, v): the j calls before it have a translation (storeOpsFrom) and, run through Store.step behind "
    "cif_create, give the state in which the parser makes the call (ParserSimF.prefix_rep: every such state is represented: WOk, handle "
    "tables, Store.abs = replay); there is a container handle h with: set_value h n v in contract, CIF_OK, the next state shows exactly the "
    "parser model's next target (so h is the container at `path`), and get_value h n then delivers v (rc CIF_OK or CIF_AMBIGUOUS_ITEM) — "
    "when the item is new to the container (the parser's normal path) or its loop has a packet.  The store model of Store.step keeps values "
    "as they are (no codec): the codec round trip is C07_stored_read_identical / C07_parser_route, unchanged.  NOT covered: pre-existing "
    "targets (see C03), the packet values of cif_loop_add_packet in the composed state (C07_parser_route's addPkt arm stays about an "
    "arbitrary InvS state), and that the parser never calls set_value for an item that exists (hypothesis `new or has a packet`).",
]
# ---- independent review rA (notes/review/rA-review.md): CifModel.Props.ReviewRC07 is listed in group gX's LEAN_MODULES above ----

PARTIAL += [
    "review rB: C07_walk_read_identical is now positional at the level (container node, loop node, packet index) + 'the all-continue walk is the "
    "full traversal of the walker's tree'; the step from there to the HANDLE the item callback receives (`.item path i j k` of C14's "
    "positional traversal, Spec/TraversalPos.lean) is not a theorem",
]
