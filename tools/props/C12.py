PROPERTY = "C12"
LEVEL = "proof"
LEAN_MODULES = ["CifModel.Props.C12", "CifModel.Lemmas.ParserTop", "CifModel.Props.C12Lex", "CifModel.Props.C12Scan", "CifModel.Props.ReviewC12",
                "CifModel.Lemmas.ParserReach", "CifModel.Lemmas.DefectChars", "CifModel.Props.C12Chars",
                # group gW: segments of the element loop, two defects, save frames, abort-on-error handler
                "CifModel.Lemmas.ParserDefectSeg", "CifModel.Lemmas.DefectCharsSeg", "CifModel.Lemmas.ParserDefectDie",
                "CifModel.Props.C12Two", "CifModel.Props.C12Frames", "CifModel.Props.C12Die",
                "CifModel.Lemmas.ParserDefectCombo", "CifModel.Lemmas.ParserDefectBare", "CifModel.Props.C12Bare",
                "CifModel.Lemmas.LexDefectMulti", "CifModel.Props.C12ScanMulti", "CifModel.Lemmas.DefectCharsPlain"]
REQUIRED = ["CifModel.C12_clean", "CifModel.C12_first_report_is_policy_free", "CifModel.C12_missing_value_instance",
            "CifModel.C12_unexpected_value_instance", "CifModel.C12_dup_scalar_instance", "CifModel.C12_dup_loop_header_instance",
            "CifModel.C12_partial_packet_instance", "CifModel.C12_empty_and_null_loop_instance", "CifModel.C12_no_block_header_instance",
            "CifModel.C12_delimiters_instance", "CifModel.C12_table_keys_instance", "CifModel.C12_key_at_container_level_instance",
            "CifModel.C12_frames_instance", "CifModel.C12_invalid_index", "CifModel.C12_invalid_index_instance",
            "CifModel.C12_missing_value_at", "CifModel.C12_unexpected_value_at", "CifModel.C12_dup_itemname_at", "CifModel.C12_empty_loop_at",
            "CifModel.C12_partial_packet_at", "CifModel.C12_dup_header_name_at", "CifModel.Model.Parser.parse_spec",
            "CifModel.C12_missing_value", "CifModel.C12_unexpected_value", "CifModel.C12_dup_itemname", "CifModel.C12_empty_loop",
            "CifModel.C12_no_block_header", "CifModel.C12_partial_packet", "CifModel.C12_dup_header_name",
            "CifModel.C12_unexpected_delim", "CifModel.C12_unexpected_term", "CifModel.C12_missing_delim_list",
            "CifModel.C12_missing_delim_table", "CifModel.C12_table_missing_value", "CifModel.C12_misquoted_key",
            "CifModel.C12_missing_key", "CifModel.C12_missing_key_word", "CifModel.C12_null_key", "CifModel.C12_unquoted_key",
            "CifModel.C12_null_key_word", "CifModel.C12_frame_unterminated", "CifModel.C12_eof_in_frame",
            "CifModel.C12_no_frame_term", "CifModel.C12_frame_nesting_depth", "CifModel.C12_frame_not_allowed",
            "CifModel.C12_scanner_report_in_element_position", "CifModel.C12_null_loop", "CifModel.C12_invalid_itemname",
            "CifModel.C12_invalid_framecode", "CifModel.C12_dup_framecode", "CifModel.C12_invalid_blockcode",
            "CifModel.C12_dup_blockcode",
            # character-level corollaries (Props/C12Chars.lean, Lemmas/DefectChars.lean, Lemmas/ParserReach.lean; group gC)
            "CifModel.Props.C12_chars_missing_value", "CifModel.Props.C12_chars_unexpected_value",
            "CifModel.Props.C12_chars_dup_itemname", "CifModel.Props.C12_chars_partial_packet",
            "CifModel.Props.C12_chars_dup_header_name", "CifModel.Props.C12_chars_empty_loop",
            "CifModel.Props.C12_chars_unexpected_delim", "CifModel.Props.C12_chars_unexpected_term",
            "CifModel.Props.C12_chars_null_loop", "CifModel.Props.C12_chars_invalid_itemname",
            "CifModel.Props.C12_chars_missing_delim_list", "CifModel.Props.C12_chars_missing_delim_table",
            "CifModel.Props.C12_chars_table_missing_value", "CifModel.Props.C12_chars_missing_key",
            "CifModel.Props.C12_chars_missing_key_word", "CifModel.Props.C12_chars_null_key",
            "CifModel.Props.C12_chars_no_block_header", "CifModel.Props.C12_chars_invalid_blockcode",
            "CifModel.Props.C12_chars_dup_blockcode", "CifModel.Props.C12_chars_invalid_framecode",
            "CifModel.Props.C12_chars_eof_in_frame", "CifModel.Props.C12_chars_no_frame_term",
            "CifModel.Props.C12_chars_frame_nesting_depth", "CifModel.Props.C12_chars_dup_framecode",
            "CifModel.Props.C12Chars.C12_chars_missing_value_instance",
            "CifModel.Model.Parser.Reach.det", "CifModel.Lemmas.DefectChars.reach_chunks", "CifModel.Lemmas.DefectChars.reach_line", "CifModel.Lemmas.DefectChars.reach_line_pending", "CifModel.Lemmas.DefectChars.posTok_snoc", "CifModel.Lemmas.DefectChars.block_defect_chars",
            "CifModel.Lemmas.DefectChars.line_pending", "CifModel.Lemmas.DefectChars.line_consumed",
            "CifModel.Lemmas.DefectChars.reach_end", "CifModel.Lemmas.DefectChars.repAt_line", "CifModel.Props.OneReportAt.one",
            "CifModel.Props.C12Chars.C12_chars_instance_lines",
            # scanner-level classes (Props/C12Scan.lean, group gD)
            "CifModel.C12_disallowed_initial_char", "CifModel.C12_missing_space", "CifModel.C12_missing_space_value",
            "CifModel.C12_missing_space_glued_bracket", "CifModel.C12_missing_endquote", "CifModel.C12_unclosed_text",
            "CifModel.C12_unclosed_triple", "CifModel.C12_overlength_lines", "CifModel.C12_overlength_sep",
            "CifModel.C12_overlength_text", "CifModel.C12_overlength_triple", "CifModel.C12_defective_unit",
            "CifModel.C12_defective_unit_multiline", "CifModel.C12_disallowed_char", "CifModel.C12_invalid_char_trail",
            "CifModel.C12_invalid_char_lead", "CifModel.C12_die_is_first",
            "CifModel.C12_reserved_word_scan", "CifModel.C12_reserved_word_nextTok", "CifModel.C12_reserved_word",
            "CifModel.C12_reserved_word_value_position", "CifModel.C12_reserved_word_instance",
            "CifModel.C12_unexpected_delim_at", "CifModel.C12_unexpected_term_at", "CifModel.C12_missing_delim_list_at",
            "CifModel.C12_missing_delim_table_at", "CifModel.C12_table_missing_value_at", "CifModel.C12_misquoted_key_at",
            "CifModel.C12_missing_key_at", "CifModel.C12_missing_key_word_at", "CifModel.C12_null_key_at",
            "CifModel.C12_unquoted_key_at", "CifModel.C12_null_key_word_at", "CifModel.C12_frame_unterminated_at",
            "CifModel.C12_frame_not_allowed_at", "CifModel.C12_null_loop_at", "CifModel.C12_invalid_itemname_at",
            "CifModel.C12_invalid_framecode_at", "CifModel.C12_dup_framecode_at", "CifModel.C12_invalid_blockcode_at",
            "CifModel.C12_dup_blockcode_at", "CifModel.C12_eof_in_frame_at", "CifModel.C12_no_frame_term_at",
            "CifModel.C12_frame_nesting_depth_at",
            # group gW — segments, composition (Props/C12Two, Lemmas/ParserDefectSeg)
            "CifModel.Model.Parser.Seg.comp", "CifModel.Model.Parser.Seg.frame", "CifModel.Model.Parser.Seg.level",
            "CifModel.Model.Parser.Seg.elems", "CifModel.Model.Parser.Seg.one", "CifModel.Model.Parser.Seg.one_inv",
            "CifModel.C12_seg_missing_value", "CifModel.C12_seg_unexpected_value", "CifModel.C12_seg_dup_itemname",
            "CifModel.C12_seg_invalid_itemname", "CifModel.C12_seg_unexpected_delim", "CifModel.C12_seg_partial_packet",
            "CifModel.C12_seg_dup_header_name", "CifModel.C12_seg_missing_delim_list", "CifModel.C12_seg_null_key",
            "CifModel.C12_seg_missing_key", "CifModel.C12_seg_table_missing_value",
            "CifModel.C12_defects_compose", "CifModel.C12_two_defects", "CifModel.C12_two_defects_missing_value_dup_itemname",
            # character level: any segment, save frames (one and two levels), two defects (Props/C12Frames, Lemmas/DefectCharsSeg)
            "CifModel.Lemmas.DefectChars.block_segs_run", "CifModel.Lemmas.DefectChars.block_segs_chars",
            "CifModel.Lemmas.DefectChars.repsAt_lines",
            "CifModel.Props.C12_chars_segment", "CifModel.Props.C12_chars_in_frame", "CifModel.Props.C12_chars_items_in_frame",
            "CifModel.Props.C12_chars_missing_value_in_frame", "CifModel.Props.C12_chars_unexpected_value_in_frame",
            "CifModel.Props.C12_chars_dup_itemname_in_frame", "CifModel.Props.C12_chars_invalid_itemname_in_frame",
            "CifModel.Props.C12_chars_partial_packet_in_frame", "CifModel.Props.C12_chars_in_nested_frame",
            "CifModel.Props.C12_chars_two_defects", "CifModel.Props.C12_chars_missing_value_then_dup_itemname",
            "CifModel.Props.Reports.one", "CifModel.Props.Reports.two",
            "CifModel.Props.C12Frames.C12_chars_missing_value_in_frame_instance", "CifModel.Props.C12Frames.C12_frames_instance_lines",
            "CifModel.Props.C12Frames.C12_chars_two_defects_instance", "CifModel.Props.C12Frames.C12_two_defects_instance_lines",
            "CifModel.Props.C12Frames.C12_chars_in_nested_frame_instance",
            # abort-on-error handler with content (Props/C12Die, Lemmas/ParserDefectDie)
            "CifModel.Model.Parser.DieSeg.after_elems", "CifModel.Model.Parser.DieSeg.after_items", "CifModel.Model.Parser.DieSeg.frame",
            "CifModel.Model.Parser.die_missing_value", "CifModel.Model.Parser.die_unexpected_value",
            "CifModel.Model.Parser.die_dup_itemname", "CifModel.Model.Parser.die_invalid_itemname",
            "CifModel.Model.Parser.die_unexpected_delim", "CifModel.Model.Parser.die_unexpected_term",
            "CifModel.Lemmas.DefectChars.block_die_run", "CifModel.Lemmas.DefectChars.block_die_chars",
            "CifModel.Props.C12_die_segment", "CifModel.Props.C12_die_items", "CifModel.Props.C12_die_items_in_frame",
            "CifModel.Props.C12_die_missing_value", "CifModel.Props.C12_die_unexpected_value", "CifModel.Props.C12_die_dup_itemname",
            "CifModel.Props.C12_die_invalid_itemname", "CifModel.Props.C12_die_unexpected_delim", "CifModel.Props.C12_die_unexpected_term",
            "CifModel.Props.C12_die_missing_value_in_frame", "CifModel.Props.C12_die_dup_itemname_in_frame",
            "CifModel.Props.C12_die_unexpected_value_in_frame", "CifModel.Props.C12_die_invalid_itemname_in_frame",
            "CifModel.Props.C12Die.C12_die_missing_value_instance", "CifModel.Props.C12Die.C12_die_missing_value_in_frame_instance",
            # a dropped header name and a short last packet in one loop, all instances (Lemmas/ParserDefectCombo)
            "CifModel.Model.Parser.dup_header_partial_step_at", "CifModel.Model.Parser.short_row", "CifModel.Model.Parser.Seg.items",
            "CifModel.C12_seg_dup_header_name_partial_packet", "CifModel.C12_dup_header_name_partial_packet",
            "CifModel.Props.C12_chars_dup_header_name_partial_packet",
            "CifModel.Props.C12Frames.C12_chars_dup_header_name_partial_packet_instance",
            # CIF_INVALID_BARE_VALUE, text prefix (Props/C12Bare)
            "CifModel.C12_seg_invalid_bare_value", "CifModel.C12_invalid_bare_value", "CifModel.C12_die_invalid_bare_value",
            "CifModel.C12_text_prefix_never_reported",
            # scanner level: comments, several defective places, lead surrogate anywhere (Props/C12Scan, Props/C12ScanMulti)
            "CifModel.C12_defective_unit_comment", "CifModel.C12_defective_unit_comment_nextToken",
            "CifModel.Model.Lexer.multi", "CifModel.Model.Lexer.EvToWs.lead", "CifModel.Model.Lexer.EvToEol.lead",
            "CifModel.Model.Lexer.EvDelim.lead", "CifModel.Model.Lexer.EvDelim.of1",
            "CifModel.C12_several_defects_name", "CifModel.C12_several_defects_quoted", "CifModel.C12_several_defects_comment",
            "CifModel.C12_invalid_char_lead_anywhere",
            # any depth of nesting; frames not allowed (max_frame_depth = 0)
            "CifModel.Model.Parser.Seg.nest", "CifModel.Lemmas.DefectChars.nest_fuel", "CifModel.Props.C12_chars_in_frames",
            "CifModel.Props.C12Frames.C12_chars_in_frames_instance",
            "CifModel.Model.Parser.elemsV_plain_at", "CifModel.Model.Parser.plain_blocks_prefix_at",
            "CifModel.Model.Parser.plain_blocks_structure", "CifModel.Lemmas.DefectChars.block_segs_plain_chars",
            "CifModel.Props.C12_chars_frame_not_allowed", "CifModel.Props.C12Frames.C12_chars_frame_not_allowed_instance"]
GEN = ["ErrCodes", "CharClass", "ParseConsts"]
FAMILIES = ["defect"]
TRUSTED_BASE = [
    "Lean 4.33.0 kernel; axioms propext, Classical.choice, Quot.sound only",
    "lean/CifModel/Model/Parser.lean — every recovery branch of the productions explicit; trusted as far as the `defect` and `parse` "
    "correspondence families observe it (return value, (code, line) log, canonical dump of the recovered CIF)",
    "tools/gen/defect.py: the planting functions and the documented recovery actions (hand transcription of the table "
    "`@page error_recovery` of src/parser.c into transformations of abstract documents), computed without the model; "
    "tools/gen/parsedoc.py (renderer, denote, canonical dump); harness/x_parse.c",
]
ASSUMPTIONS = [
    "one defect per document; the callback accepts every error",
    "where the documented table is not specific the oracle admits both readings: a loop without packets may be kept or pruned, an "
    "invalid bare value may come back quoted or unquoted, a NULL-keyed table entry is dropped",
]
PARTIAL = [
    "TOKEN LEVEL (Props/C12.lean, Props/C12Lex.lean; Lemmas/ParserDefect*.lean): for every class of the parser's recovery table that is decided on "
    "tokens there is a universally quantified theorem over the integrated parser model — missing value, unexpected value, duplicate item name (any "
    "spelling), empty loop, null loop, partial packet, duplicate name in a loop header, no block header, invalid item name, invalid / duplicate block "
    "code, invalid / duplicate frame code, unexpected / missing list and table delimiters, unexpected save_ terminator, the table-key classes (missing "
    "value, misquoted key, missing key, stray word, null key, unquoted key, `:value` in one word), invalid table index (reported since /repo 8375485), "
    "the frame classes (unterminated frame = end of input / block header / frame header inside a frame, nesting depth, frames not allowed): any "
    "container (block or frame at any depth), any well-formed run of elements before and behind the defect, accept-all policy: exactly one report with "
    "the class's code, content = that of the repaired document, surroundings unaffected; each has an `_at` form that also states WHERE on the "
    "scanner's walk the report is made (RepAt: after j tokens) and where the run ends (At).  C12_unquoted_key and C12_null_key_word are anchored at the "
    "scanner state behind TRIM_TOKEN (their hypothesis is what the scanner feeds after the push-back).  Die policy: the result is the first code an "
    "accept-all parse reports (C03_die_is_first / C12_die_is_first); C12_clean and C12_first_report_is_policy_free hold for all inputs and policies.  "
    "NOT proved: two or more defects in one document (only the first report is characterised), the combination 'partial packet after a dropped header "
    "name' (kernel-evaluated instances only), policies that accept some codes and reject others beyond what C03_prefix_determinism gives",
    "SCANNER LEVEL (Props/C12Scan.lean; Lemmas/LexDefect*.lean, LexReserved.lean): CIF_DISALLOWED_INITIAL_CHAR, CIF_DISALLOWED_CHAR (the character is "
    "accepted unchanged — the recovery table's 'substitute a replacement character' is not what the code does, its own comment says so; in CIF 1.1 a "
    "character outside the CIF set that is also non-ASCII is reported TWICE, the theorem states the exact count), CIF_INVALID_CHAR for unpaired "
    "surrogates (replaced by U+FFFD / `*`), CIF_MISSING_SPACE, CIF_MISSING_ENDQUOTE, CIF_UNCLOSED_TEXT (text field and triple-quoted string), "
    "CIF_OVERLENGTH_LINE (exactly the terminated lines over 2048 characters, once each, with the line number; tokens and positions as without), "
    "CIF_RESERVED_WORD (C12_reserved_word: composed with the parser half) — any scanner state in front, any admissible continuation behind, accept-all "
    "equation and die clause.  NOT proved universally: a defective unit inside a comment, an unpaired lead surrogate elsewhere than before a closing "
    "quote, several defects in one token, CIF_INVALID_BARE_VALUE / text-prefix classes at scanner level (decided in parse_value / the decoder), "
    "CIF_UNMAPPED_CHAR and byte-level CIF_INVALID_CHAR (ICU's converter; family parsebytes of C03 observes them)",
    "CHARACTER LEVEL (Props/C12Chars, Lemmas/DefectChars, Lemmas/ParserReach; group gC): for 24 classes — missing value, unexpected "
    "value, dup item name, partial packet, dup header name, empty loop, unexpected delimiter, unexpected save_, null loop, invalid item "
    "name, missing delimiter (list, table), table: missing value / missing key / stray word / null key, no block header, invalid / dup "
    "block code, invalid / dup frame code, end of input / block header / frame header in a frame — the token-level class theorem is "
    "carried to whole parses of TEXTS: any chunk list accepted by okC (every admissible presentation of every token, any whitespace and "
    "comments between tokens), lines <= 2048, acceptable first character, any well-formed data blocks before and behind, any well-formed "
    "runs around the defect: parse under accept-all returns CIF_OK with EXACTLY ONE report, the class's code, the content of the "
    "repaired document (dup frame code: content as frames / loops, not as a document), and the LINE of the report: the report is made j "
    "tokens into the text (j per class, from the RepAt conjunct of the _at forms), so it is on the line on which the j-th token of the "
    "text ends or on the line on which the next token ends (the end of the text if there is none) — endLine / repAt_line, i.e. "
    "posAfter 1 0 over the characters up to the end of that token; two candidates because RepAt does not say whether the following token "
    "had already been scanned (they coincide when both tokens end on one line).  No premise on the fuel.  NOT carried to characters: "
    "classes that cannot occur in an okC text or are anchored inside a token — invalid table index and text field in key position "
    "(.tkey), C12_unquoted_key / C12_null_key_word (trimTok), C12_scanner_report_in_element_position; C12_frame_not_allowed "
    "(max_frame_depth = 0 contradicts the premise of blocks_prefix / blocks_structure); defects inside save frames (the hosts are data "
    "blocks), policies other than accept-all, more than one defect per text.",
]
LEVEL_TEXT = ("Theorems about the executable integrated parser model + differential correspondence on planted defects (class x "
              "position x host) with an implementation-level oracle: first callback = documented code at a line within the "
              "defect .. following token, recovered content = documented recovery applied to the host.")
LEVEL_NOTE = "see PARTIAL"
TECHNIQUE = "Lean 4 proof about an executable model + differential correspondence with an independent oracle"
