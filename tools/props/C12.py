PROPERTY = "C12"
LEVEL = "proof"
LEAN_MODULES = ["CifModel.Props.C12", "CifModel.Lemmas.ParserTop", "CifModel.Props.C12Lex", "CifModel.Props.C12Scan", "CifModel.Props.ReviewC12",
                "CifModel.Lemmas.ParserReach", "CifModel.Lemmas.DefectChars", "CifModel.Props.C12Chars"]
REQUIRED = ["CifModel.C12_clean", "CifModel.C12_first_report_is_policy_free", "CifModel.C12_missing_value_instance",
            "CifModel.C12_unexpected_value_instance", "CifModel.C12_dup_scalar_instance", "CifModel.C12_dup_loop_header_instance",
            "CifModel.C12_partial_packet_instance", "CifModel.C12_empty_and_null_loop_instance", "CifModel.C12_no_block_header_instance",
            "CifModel.C12_delimiters_instance", "CifModel.C12_table_keys_instance", "CifModel.C12_key_at_container_level_instance",
            "CifModel.C12_frames_instance", "CifModel.C12_invalid_index", "CifModel.C12_invalid_index_instance",
            "CifModel.C12_missing_value_at", "CifModel.C12_unexpected_value_at", "CifModel.C12_dup_itemname_at", "CifModel.C12_empty_loop_at",
            "CifModel.C12_partial_packet_at", "CifModel.C12_dup_header_name_at", "CifModel.Model.Parser.parse_spec",
            "CifModel.C12_missing_value", "CifModel.C12_unexpected_value", "CifModel.C12_dup_itemname", "CifModel.C12_empty_loop",
            "CifModel.C12_no_block_header", "CifModel.C12_partial_packet", "CifModel.C12_dup_header_name",
            "CifModel.C12_unexpected_delim", "CifModel.C12_unexpected_term", "CifModel.C12_missing_delim_list",
            "CifModel.C12_missing_delim_table", "CifModel.C12_table_missing_value", "CifModel.C12_misquoted_key",
            "CifModel.C12_missing_key", "CifModel.C12_missing_key_word", "CifModel.C12_null_key", "CifModel.C12_unquoted_key",
            "CifModel.C12_null_key_word", "CifModel.C12_frame_unterminated", "CifModel.C12_eof_in_frame",
            "CifModel.C12_no_frame_term", "CifModel.C12_frame_nesting_depth", "CifModel.C12_frame_not_allowed",
            "CifModel.C12_scanner_report_in_element_position", "CifModel.C12_null_loop", "CifModel.C12_invalid_itemname",
            "CifModel.C12_invalid_framecode", "CifModel.C12_dup_framecode", "CifModel.C12_invalid_blockcode",
            "CifModel.C12_dup_blockcode",
            # character-level corollaries (Props/C12Chars.lean, Lemmas/DefectChars.lean, Lemmas/ParserReach.lean; group gC)
            "CifModel.Props.C12_chars_missing_value", "CifModel.Props.C12_chars_unexpected_value",
            "CifModel.Props.C12_chars_dup_itemname", "CifModel.Props.C12_chars_partial_packet",
            "CifModel.Props.C12_chars_dup_header_name", "CifModel.Props.C12_chars_empty_loop",
            "CifModel.Props.C12_chars_unexpected_delim", "CifModel.Props.C12_chars_unexpected_term",
            "CifModel.Props.C12_chars_null_loop", "CifModel.Props.C12_chars_invalid_itemname",
            "CifModel.Props.C12_chars_missing_delim_list", "CifModel.Props.C12_chars_missing_delim_table",
            "CifModel.Props.C12_chars_table_missing_value", "CifModel.Props.C12_chars_missing_key",
            "CifModel.Props.C12_chars_missing_key_word", "CifModel.Props.C12_chars_null_key",
            "CifModel.Props.C12_chars_no_block_header", "CifModel.Props.C12_chars_invalid_blockcode",
            "CifModel.Props.C12_chars_dup_blockcode", "CifModel.Props.C12_chars_invalid_framecode",
            "CifModel.Props.C12_chars_eof_in_frame", "CifModel.Props.C12_chars_no_frame_term",
            "CifModel.Props.C12_chars_frame_nesting_depth", "CifModel.Props.C12_chars_dup_framecode",
            "CifModel.Props.C12Chars.C12_chars_missing_value_instance",
            "CifModel.Model.Parser.Reach.det", "CifModel.Lemmas.DefectChars.reach_chunks", "CifModel.Lemmas.DefectChars.reach_line", "CifModel.Lemmas.DefectChars.reach_line_pending", "CifModel.Lemmas.DefectChars.posTok_snoc", "CifModel.Lemmas.DefectChars.block_defect_chars",
            "CifModel.Lemmas.DefectChars.line_pending", "CifModel.Lemmas.DefectChars.line_consumed",
            "CifModel.Lemmas.DefectChars.reach_end", "CifModel.Lemmas.DefectChars.repAt_line", "CifModel.Props.OneReportAt.one",
            "CifModel.Props.C12Chars.C12_chars_instance_lines",
            # scanner-level classes (Props/C12Scan.lean, group gD)
            "CifModel.C12_disallowed_initial_char", "CifModel.C12_missing_space", "CifModel.C12_missing_space_value",
            "CifModel.C12_missing_space_glued_bracket", "CifModel.C12_missing_endquote", "CifModel.C12_unclosed_text",
            "CifModel.C12_unclosed_triple", "CifModel.C12_overlength_lines", "CifModel.C12_overlength_sep",
            "CifModel.C12_overlength_text", "CifModel.C12_overlength_triple", "CifModel.C12_defective_unit",
            "CifModel.C12_defective_unit_multiline", "CifModel.C12_disallowed_char", "CifModel.C12_invalid_char_trail",
            "CifModel.C12_invalid_char_lead", "CifModel.C12_die_is_first",
            "CifModel.C12_reserved_word_scan", "CifModel.C12_reserved_word_nextTok", "CifModel.C12_reserved_word",
            "CifModel.C12_reserved_word_value_position", "CifModel.C12_reserved_word_instance",
            "CifModel.C12_unexpected_delim_at", "CifModel.C12_unexpected_term_at", "CifModel.C12_missing_delim_list_at",
            "CifModel.C12_missing_delim_table_at", "CifModel.C12_table_missing_value_at", "CifModel.C12_misquoted_key_at",
            "CifModel.C12_missing_key_at", "CifModel.C12_missing_key_word_at", "CifModel.C12_null_key_at",
            "CifModel.C12_unquoted_key_at", "CifModel.C12_null_key_word_at", "CifModel.C12_frame_unterminated_at",
            "CifModel.C12_frame_not_allowed_at", "CifModel.C12_null_loop_at", "CifModel.C12_invalid_itemname_at",
            "CifModel.C12_invalid_framecode_at", "CifModel.C12_dup_framecode_at", "CifModel.C12_invalid_blockcode_at",
            "CifModel.C12_dup_blockcode_at", "CifModel.C12_eof_in_frame_at", "CifModel.C12_no_frame_term_at",
            "CifModel.C12_frame_nesting_depth_at"]
GEN = ["ErrCodes", "CharClass", "ParseConsts"]
FAMILIES = ["defect"]
TRUSTED_BASE = [
    "Lean 4.33.0 kernel; axioms propext, Classical.choice, Quot.sound only",
    "lean/CifModel/Model/Parser.lean — every recovery branch of the productions explicit; trusted as far as the `defect` and `parse` "
    "correspondence families observe it (return value, (code, line) log, canonical dump of the recovered CIF)",
    "tools/gen/defect.py: the planting functions and the documented recovery actions (hand transcription of the table "
    "`@page error_recovery` of src/parser.c into transformations of abstract documents), computed without the model; "
    "tools/gen/parsedoc.py (renderer, denote, canonical dump); harness/x_parse.c",
]
ASSUMPTIONS = [
    "one defect per document; the callback accepts every error",
    "where the documented table is not specific the oracle admits both readings: a loop without packets may be kept or pruned, an "
    "invalid bare value may come back quoted or unquoted, a NULL-keyed table entry is dropped",
]
PARTIAL = [
    "universally quantified class theorems are proved at the TOKEN level for seven classes — C12_partial_packet (any complete packets, then a short one), C12_dup_header_name (normalised comparison: any spelling; against the container or earlier header names; the column is dropped from every packet), C12_no_block_header (whole document: any "
    "well-formed elements before the first header, any blocks behind), C12_missing_value, C12_unexpected_value, "
    "C12_dup_itemname (any spelling), C12_empty_loop: any container (block or frame), any well-formed run of items before and behind "
    "the defect, accept-all: exactly one report with the class's code and the documented content, surroundings unaffected "
    "(Lemmas/ParserDefect.lean: defect_run + one step lemma per class).  Not proved universally: the line clause at document level "
    "(shown at step level), the embedding into whole documents / characters (as for C01: the lexical glue), and the remaining classes "
    "(the combination partial packet after a dropped header name, delimiters, keys, frames, lexical "
    "classes): for those the statement is kept as C12_class_full (def … : Prop).  Also proved are C12_clean and C12_first_report_is_policy_free (all inputs, all policies: a defect-free "
    "document is read identically under every policy; the first report of a defective one does not depend on the policy) and, per "
    "class, kernel-evaluated INSTANCES (one planted defect each: missing value, unexpected value, duplicate scalar name, duplicate "
    "name in a loop header incl. case variants, partial packet, empty loop / empty loop header, data before the first block header, "
    "unexpected / missing delimiter, missing / null / unquoted / text-block key, missing value in a table, key token at container "
    "level, unexpected terminator / end of input in a frame / unterminated frame).  The quantifier over hosts x classes x positions "
    "is covered by the `defect` correspondence family (41 classes, every position of 11 hand-written + random hosts) with its "
    "independent oracle.",
    "CHARACTER LEVEL (Props/C12Chars, Lemmas/DefectChars, Lemmas/ParserReach; group gC): for 24 classes — missing value, unexpected "
    "value, dup item name, partial packet, dup header name, empty loop, unexpected delimiter, unexpected save_, null loop, invalid item "
    "name, missing delimiter (list, table), table: missing value / missing key / stray word / null key, no block header, invalid / dup "
    "block code, invalid / dup frame code, end of input / block header / frame header in a frame — the token-level class theorem is "
    "carried to whole parses of TEXTS: any chunk list accepted by okC (every admissible presentation of every token, any whitespace and "
    "comments between tokens), lines <= 2048, acceptable first character, any well-formed data blocks before and behind, any well-formed "
    "runs around the defect: parse under accept-all returns CIF_OK with EXACTLY ONE report, the class's code, the content of the "
    "repaired document (dup frame code: content as frames / loops, not as a document), and the LINE of the report: the report is made j "
    "tokens into the text (j per class, from the RepAt conjunct of the _at forms), so it is on the line on which the j-th token of the "
    "text ends or on the line on which the next token ends (the end of the text if there is none) — endLine / repAt_line, i.e. "
    "posAfter 1 0 over the characters up to the end of that token; two candidates because RepAt does not say whether the following token "
    "had already been scanned (they coincide when both tokens end on one line).  No premise on the fuel.  NOT carried to characters: "
    "classes that cannot occur in an okC text or are anchored inside a token — invalid table index and text field in key position "
    "(.tkey), C12_unquoted_key / C12_null_key_word (trimTok), C12_scanner_report_in_element_position; C12_frame_not_allowed "
    "(max_frame_depth = 0 contradicts the premise of blocks_prefix / blocks_structure); defects inside save frames (the hosts are data "
    "blocks), policies other than accept-all, more than one defect per text.",
]
LEVEL_TEXT = ("Theorems about the executable integrated parser model + differential correspondence on planted defects (class x "
              "position x host) with an implementation-level oracle: first callback = documented code at a line within the "
              "defect .. following token, recovered content = documented recovery applied to the host.")
LEVEL_NOTE = "see PARTIAL"
TECHNIQUE = "Lean 4 proof about an executable model + differential correspondence with an independent oracle"
