PROPERTY = "C12"
LEVEL = "proof"
LEAN_MODULES = ["CifModel.Props.C12"]
REQUIRED = ["CifModel.C12_missing_value_instance"]
GEN = ["ErrCodes", "CharClass", "ParseConsts"]
FAMILIES = ["defect"]
TRUSTED_BASE = [
    "Lean 4.33.0 kernel; axioms propext, Classical.choice, Quot.sound only",
    "lean/CifModel/Model/Parser.lean — every recovery branch of the productions explicit; trusted as far as the `defect` and `parse` "
    "correspondence families observe it (return value, (code, line) log, canonical dump of the recovered CIF)",
    "tools/gen/defect.py: the planting functions and the documented recovery actions (hand transcription of the table "
    "`@page error_recovery` of src/parser.c into transformations of abstract documents), computed without the model; "
    "tools/gen/parsedoc.py (renderer, denote, canonical dump); harness/x_parse.c",
]
ASSUMPTIONS = [
    "one defect per document; the callback accepts every error",
    "where the documented table is not specific the oracle admits both readings: a loop without packets may be kept or pruned, an "
    "invalid bare value may come back quoted or unquoted, a NULL-keyed table entry is dropped",
]
PARTIAL = []
LEVEL_TEXT = ("Theorems about the executable integrated parser model + differential correspondence on planted defects (class x "
              "position x host) with an implementation-level oracle: first callback = documented code at a line within the "
              "defect .. following token, recovered content = documented recovery applied to the host.")
LEVEL_NOTE = "see PARTIAL"
TECHNIQUE = "Lean 4 proof about an executable model + differential correspondence with an independent oracle"
