PROPERTY = "C12"
LEVEL = "proof"
LEAN_MODULES = ["CifModel.Props.C12", "CifModel.Lemmas.ParserTop", "CifModel.Props.C12Lex", "CifModel.Props.C12Scan", "CifModel.Props.ReviewC12",
                "CifModel.Lemmas.ParserReach", "CifModel.Lemmas.DefectChars", "CifModel.Props.C12Chars",
                # group gW: segments of the element loop, two defects, save frames, abort-on-error handler
                "CifModel.Lemmas.ParserDefectSeg", "CifModel.Lemmas.DefectCharsSeg", "CifModel.Lemmas.ParserDefectDie",
                "CifModel.Props.C12Two", "CifModel.Props.C12Frames", "CifModel.Props.C12Die",
                "CifModel.Lemmas.ParserDefectCombo", "CifModel.Lemmas.ParserDefectBare", "CifModel.Props.C12Bare",
                "CifModel.Lemmas.LexDefectMulti", "CifModel.Props.C12ScanMulti", "CifModel.Lemmas.DefectCharsPlain"]
REQUIRED = ["CifModel.C12_clean", "CifModel.C12_first_report_is_policy_free", "CifModel.C12_missing_value_instance",
            "CifModel.C12_unexpected_value_instance", "CifModel.C12_dup_scalar_instance", "CifModel.C12_dup_loop_header_instance",
            "CifModel.C12_partial_packet_instance", "CifModel.C12_empty_and_null_loop_instance", "CifModel.C12_no_block_header_instance",
            "CifModel.C12_delimiters_instance", "CifModel.C12_table_keys_instance", "CifModel.C12_key_at_container_level_instance",
            "CifModel.C12_frames_instance", "CifModel.C12_invalid_index", "CifModel.C12_invalid_index_instance",
            "CifModel.C12_missing_value_at", "CifModel.C12_unexpected_value_at", "CifModel.C12_dup_itemname_at", "CifModel.C12_empty_loop_at",
            "CifModel.C12_partial_packet_at", "CifModel.C12_dup_header_name_at", "CifModel.Model.Parser.parse_spec",
            "CifModel.C12_missing_value", "CifModel.C12_unexpected_value", "CifModel.C12_dup_itemname", "CifModel.C12_empty_loop",
            "CifModel.C12_no_block_header", "CifModel.C12_partial_packet", "CifModel.C12_dup_header_name",
            "CifModel.C12_unexpected_delim", "CifModel.C12_unexpected_term", "CifModel.C12_missing_delim_list",
            "CifModel.C12_missing_delim_table", "CifModel.C12_table_missing_value", "CifModel.C12_misquoted_key",
            "CifModel.C12_missing_key", "CifModel.C12_missing_key_word", "CifModel.C12_null_key", "CifModel.C12_unquoted_key",
            "CifModel.C12_null_key_word", "CifModel.C12_frame_unterminated", "CifModel.C12_eof_in_frame",
            "CifModel.C12_no_frame_term", "CifModel.C12_frame_nesting_depth", "CifModel.C12_frame_not_allowed",
            "CifModel.C12_scanner_report_in_element_position", "CifModel.C12_null_loop", "CifModel.C12_invalid_itemname",
            "CifModel.C12_invalid_framecode", "CifModel.C12_dup_framecode", "CifModel.C12_invalid_blockcode",
            "CifModel.C12_dup_blockcode",
            # character-level corollaries (Props/C12Chars.lean, Lemmas/DefectChars.lean, Lemmas/ParserReach.lean; group gC)
            "CifModel.Props.C12_chars_missing_value", "CifModel.Props.C12_chars_unexpected_value",
            "CifModel.Props.C12_chars_dup_itemname", "CifModel.Props.C12_chars_partial_packet",
            "CifModel.Props.C12_chars_dup_header_name", "CifModel.Props.C12_chars_empty_loop",
            "CifModel.Props.C12_chars_unexpected_delim", "CifModel.Props.C12_chars_unexpected_term",
            "CifModel.Props.C12_chars_null_loop", "CifModel.Props.C12_chars_invalid_itemname",
            "CifModel.Props.C12_chars_missing_delim_list", "CifModel.Props.C12_chars_missing_delim_table",
            "CifModel.Props.C12_chars_table_missing_value", "CifModel.Props.C12_chars_missing_key",
            "CifModel.Props.C12_chars_missing_key_word", "CifModel.Props.C12_chars_null_key",
            "CifModel.Props.C12_chars_no_block_header", "CifModel.Props.C12_chars_invalid_blockcode",
            "CifModel.Props.C12_chars_dup_blockcode", "CifModel.Props.C12_chars_invalid_framecode",
            "CifModel.Props.C12_chars_eof_in_frame", "CifModel.Props.C12_chars_no_frame_term",
            "CifModel.Props.C12_chars_frame_nesting_depth", "CifModel.Props.C12_chars_dup_framecode",
            "CifModel.Props.C12Chars.C12_chars_missing_value_instance",
            "CifModel.Model.Parser.Reach.det", "CifModel.Lemmas.DefectChars.reach_chunks", "CifModel.Lemmas.DefectChars.reach_line", "CifModel.Lemmas.DefectChars.reach_line_pending", "CifModel.Lemmas.DefectChars.posTok_snoc", "CifModel.Lemmas.DefectChars.block_defect_chars",
            "CifModel.Lemmas.DefectChars.line_pending", "CifModel.Lemmas.DefectChars.line_consumed",
            "CifModel.Lemmas.DefectChars.reach_end", "CifModel.Lemmas.DefectChars.repAt_line", "CifModel.Props.OneReportAt.one",
            "CifModel.Props.C12Chars.C12_chars_instance_lines",
            # scanner-level classes (Props/C12Scan.lean, group gD)
            "CifModel.C12_disallowed_initial_char", "CifModel.C12_missing_space", "CifModel.C12_missing_space_value",
            "CifModel.C12_missing_space_glued_bracket", "CifModel.C12_missing_endquote", "CifModel.C12_unclosed_text",
            "CifModel.C12_unclosed_triple", "CifModel.C12_overlength_lines", "CifModel.C12_overlength_sep",
            "CifModel.C12_overlength_text", "CifModel.C12_overlength_triple", "CifModel.C12_defective_unit",
            "CifModel.C12_defective_unit_multiline", "CifModel.C12_disallowed_char", "CifModel.C12_invalid_char_trail",
            "CifModel.C12_invalid_char_lead", "CifModel.C12_die_is_first",
            "CifModel.C12_reserved_word_scan", "CifModel.C12_reserved_word_nextTok", "CifModel.C12_reserved_word",
            "CifModel.C12_reserved_word_value_position", "CifModel.C12_reserved_word_instance",
            "CifModel.C12_unexpected_delim_at", "CifModel.C12_unexpected_term_at", "CifModel.C12_missing_delim_list_at",
            "CifModel.C12_missing_delim_table_at", "CifModel.C12_table_missing_value_at", "CifModel.C12_misquoted_key_at",
            "CifModel.C12_missing_key_at", "CifModel.C12_missing_key_word_at", "CifModel.C12_null_key_at",
            "CifModel.C12_unquoted_key_at", "CifModel.C12_null_key_word_at", "CifModel.C12_frame_unterminated_at",
            "CifModel.C12_frame_not_allowed_at", "CifModel.C12_null_loop_at", "CifModel.C12_invalid_itemname_at",
            "CifModel.C12_invalid_framecode_at", "CifModel.C12_dup_framecode_at", "CifModel.C12_invalid_blockcode_at",
            "CifModel.C12_dup_blockcode_at", "CifModel.C12_eof_in_frame_at", "CifModel.C12_no_frame_term_at",
            "CifModel.C12_frame_nesting_depth_at",
            # group gW — segments, composition (Props/C12Two, Lemmas/ParserDefectSeg)
            "CifModel.Model.Parser.Seg.comp", "CifModel.Model.Parser.Seg.frame", "CifModel.Model.Parser.Seg.level",
            "CifModel.Model.Parser.Seg.elems", "CifModel.Model.Parser.Seg.one", "CifModel.Model.Parser.Seg.one_inv",
            "CifModel.C12_seg_missing_value", "CifModel.C12_seg_unexpected_value", "CifModel.C12_seg_dup_itemname",
            "CifModel.C12_seg_invalid_itemname", "CifModel.C12_seg_unexpected_delim", "CifModel.C12_seg_partial_packet",
            "CifModel.C12_seg_dup_header_name", "CifModel.C12_seg_missing_delim_list", "CifModel.C12_seg_null_key",
            "CifModel.C12_seg_missing_key", "CifModel.C12_seg_table_missing_value",
            "CifModel.C12_defects_compose", "CifModel.C12_two_defects", "CifModel.C12_two_defects_missing_value_dup_itemname",
            # character level: any segment, save frames (one and two levels), two defects (Props/C12Frames, Lemmas/DefectCharsSeg)
            "CifModel.Lemmas.DefectChars.block_segs_run", "CifModel.Lemmas.DefectChars.block_segs_chars",
            "CifModel.Lemmas.DefectChars.repsAt_lines",
            "CifModel.Props.C12_chars_segment", "CifModel.Props.C12_chars_in_frame", "CifModel.Props.C12_chars_items_in_frame",
            "CifModel.Props.C12_chars_missing_value_in_frame", "CifModel.Props.C12_chars_unexpected_value_in_frame",
            "CifModel.Props.C12_chars_dup_itemname_in_frame", "CifModel.Props.C12_chars_invalid_itemname_in_frame",
            "CifModel.Props.C12_chars_partial_packet_in_frame", "CifModel.Props.C12_chars_in_nested_frame",
            "CifModel.Props.C12_chars_two_defects", "CifModel.Props.C12_chars_missing_value_then_dup_itemname",
            "CifModel.Props.Reports.one", "CifModel.Props.Reports.two",
            "CifModel.Props.C12Frames.C12_chars_missing_value_in_frame_instance", "CifModel.Props.C12Frames.C12_frames_instance_lines",
            "CifModel.Props.C12Frames.C12_chars_two_defects_instance", "CifModel.Props.C12Frames.C12_two_defects_instance_lines",
            "CifModel.Props.C12Frames.C12_chars_in_nested_frame_instance",
            # abort-on-error handler with content (Props/C12Die, Lemmas/ParserDefectDie)
            "CifModel.Model.Parser.DieSeg.after_elems", "CifModel.Model.Parser.DieSeg.after_items", "CifModel.Model.Parser.DieSeg.frame",
            "CifModel.Model.Parser.die_missing_value", "CifModel.Model.Parser.die_unexpected_value",
            "CifModel.Model.Parser.die_dup_itemname", "CifModel.Model.Parser.die_invalid_itemname",
            "CifModel.Model.Parser.die_unexpected_delim", "CifModel.Model.Parser.die_unexpected_term",
            "CifModel.Lemmas.DefectChars.block_die_run", "CifModel.Lemmas.DefectChars.block_die_chars",
            "CifModel.Props.C12_die_segment", "CifModel.Props.C12_die_items", "CifModel.Props.C12_die_items_in_frame",
            "CifModel.Props.C12_die_missing_value", "CifModel.Props.C12_die_unexpected_value", "CifModel.Props.C12_die_dup_itemname",
            "CifModel.Props.C12_die_invalid_itemname", "CifModel.Props.C12_die_unexpected_delim", "CifModel.Props.C12_die_unexpected_term",
            "CifModel.Props.C12_die_missing_value_in_frame", "CifModel.Props.C12_die_dup_itemname_in_frame",
            "CifModel.Props.C12_die_unexpected_value_in_frame", "CifModel.Props.C12_die_invalid_itemname_in_frame",
            "CifModel.Props.C12Die.C12_die_missing_value_instance", "CifModel.Props.C12Die.C12_die_missing_value_in_frame_instance",
            # a dropped header name and a short last packet in one loop, all instances (Lemmas/ParserDefectCombo)
            "CifModel.Model.Parser.dup_header_partial_step_at", "CifModel.Model.Parser.short_row", "CifModel.Model.Parser.Seg.items",
            "CifModel.C12_seg_dup_header_name_partial_packet", "CifModel.C12_dup_header_name_partial_packet",
            "CifModel.Props.C12_chars_dup_header_name_partial_packet",
            "CifModel.Props.C12Frames.C12_chars_dup_header_name_partial_packet_instance",
            # CIF_INVALID_BARE_VALUE, text prefix (Props/C12Bare)
            "CifModel.C12_seg_invalid_bare_value", "CifModel.C12_invalid_bare_value", "CifModel.C12_die_invalid_bare_value",
            "CifModel.C12_text_prefix_never_reported",
            # scanner level: comments, several defective places, lead surrogate anywhere (Props/C12Scan, Props/C12ScanMulti)
            "CifModel.C12_defective_unit_comment", "CifModel.C12_defective_unit_comment_nextToken",
            "CifModel.Model.Lexer.multi", "CifModel.Model.Lexer.EvToWs.lead", "CifModel.Model.Lexer.EvToEol.lead",
            "CifModel.Model.Lexer.EvDelim.lead", "CifModel.Model.Lexer.EvDelim.of1",
            "CifModel.C12_several_defects_name", "CifModel.C12_several_defects_quoted", "CifModel.C12_several_defects_comment",
            "CifModel.C12_invalid_char_lead_anywhere", "CifModel.C12_several_defects_bare", "CifModel.C12_invalid_char_lead_bare",
            "CifModel.Model.Lexer.multiS", "CifModel.Model.Lexer.EvUnq.lead", "CifModel.Model.Lexer.multi_bare",
            "CifModel.Model.Lexer.EvText.lead", "CifModel.Model.Lexer.multi_text_scan", "CifModel.Model.Lexer.multi_text",
            "CifModel.C12_several_defects_text", "CifModel.C12_several_defects_comment_eof", "CifModel.C12_several_defects_triple",
            "CifModel.Model.Lexer.EvTriple.lead", "CifModel.Model.Lexer.multi_triple",
            # any depth of nesting; frames not allowed (max_frame_depth = 0)
            "CifModel.Model.Parser.Seg.nest", "CifModel.Lemmas.DefectChars.nest_fuel", "CifModel.Props.C12_chars_in_frames",
            "CifModel.Props.C12Frames.C12_chars_in_frames_instance",
            "CifModel.Model.Parser.elemsV_plain_at", "CifModel.Model.Parser.plain_blocks_prefix_at",
            "CifModel.Model.Parser.plain_blocks_structure", "CifModel.Lemmas.DefectChars.block_segs_plain_chars",
            "CifModel.Props.C12_chars_frame_not_allowed", "CifModel.Props.C12Frames.C12_chars_frame_not_allowed_instance",
            "CifModel.Model.Parser.DieSeg.nest", "CifModel.Model.Parser.die_null_loop", "CifModel.Props.C12_die_in_frames",
            "CifModel.Props.C12_die_null_loop", "CifModel.Model.Parser.die_dup_header_name", "CifModel.Props.C12_die_dup_header_name",
            "CifModel.Model.Parser.die_item_of_value", "CifModel.Model.Parser.values_open_die", "CifModel.Model.Parser.die_missing_delim_list",
            "CifModel.Props.C12_die_missing_delim_list", "CifModel.Model.Parser.die_missing_delim_table",
            "CifModel.Props.C12_die_missing_delim_table", "CifModel.Props.C12Die.C12_die_in_frames_instance"]
GEN = ["ErrCodes", "CharClass", "ParseConsts"]
FAMILIES = ["defect"]
TRUSTED_BASE = [
    "Lean 4.33.0 kernel; axioms propext, Classical.choice, Quot.sound only",
    "lean/CifModel/Model/Parser.lean — every recovery branch of the productions explicit; trusted as far as the `defect` and `parse` "
    "correspondence families observe it (return value, (code, line) log, canonical dump of the recovered CIF)",
    "tools/gen/defect.py: the planting functions and the documented recovery actions (hand transcription of the table "
    "`@page error_recovery` of src/parser.c into transformations of abstract documents), computed without the model; "
    "tools/gen/parsedoc.py (renderer, denote, canonical dump); harness/x_parse.c",
]
ASSUMPTIONS = [
    "the single-defect classes: one defect per document, the callback accepts every error; group gW: two defects in different "
    "elements of one container (and the two that can meet in one loop), several defective places in one token, and the "
    "abort-on-error handler (cif_parse_error_die) with the content in front of the defect",
    "where the documented table is not specific the oracle admits both readings: a loop without packets may be kept or pruned, an "
    "invalid bare value may come back quoted or unquoted, a NULL-keyed table entry is dropped",
    "abort-on-error handler: 'what stands in front of the defect' is taken for the classes whose report is made before anything of "
    "the defective construct is stored (missing value, unexpected value / delimiter / save_, duplicate and invalid item name, empty "
    "loop header); the other classes are observed through the model comparison only",
]
PARTIAL = [
    "TOKEN LEVEL (Props/C12.lean, C12Lex.lean, C12Two.lean, C12Bare.lean; Lemmas/ParserDefect*.lean): for every class of the parser's recovery "
    "table that is decided on tokens there is a universally quantified theorem over the integrated parser model — missing value, unexpected value, "
    "duplicate item name (any spelling), empty loop, null loop, partial packet, duplicate name in a loop header, no block header, invalid item name, "
    "invalid / duplicate block code, invalid / duplicate frame code, unexpected / missing list and table delimiters, unexpected save_ terminator, the "
    "table-key classes, invalid table index, the frame classes, CIF_INVALID_BARE_VALUE (C12_invalid_bare_value: decided in parse_value; the text is "
    "kept, marked quoted) — any container (block or frame at any depth), any well-formed run of elements before and behind the defect, accept-all "
    "policy: exactly one report with the class's code, content = that of the repaired document, surroundings unaffected; each has an `_at` form "
    "(where on the scanner's walk the report is made, where the run ends).  CIF_MISSING_PREFIX is never reported by the code: "
    "C12_text_prefix_never_reported (every body, every policy).  TWO OR MORE DEFECTS (group gW): the `_at` statements are SEGMENTS of the element "
    "loop (`Seg`, Lemmas/ParserDefectSeg) that compose — C12_two_defects / C12_defects_compose: two (n) defects in different elements of one "
    "container are each reported once, with their class's codes, in document order, at their positions, content = all repairs applied; the class "
    "theorems are available as segments (C12_seg_<class>: 12 classes).  The one combination inside ONE element — a dropped header name and a short "
    "last packet in the same loop — is proved for ALL instances (C12_dup_header_name_partial_packet; before: evaluated instances).  ABORT-ON-ERROR "
    "handler: return value = the class's code, exactly one report, AND the content: what stands in front of the defect, nothing behind it (`DieSeg`, "
    "Lemmas/ParserDefectDie: missing value, unexpected value, duplicate / invalid item name, unexpected delimiter, unexpected save_, empty loop header, duplicate name in a loop header, unterminated list / table (`die_item_of_value`: any abort inside parse_value leaves the item unstored), invalid bare "
    "value; in a block and inside save frames nested to any depth — every open frame exists, unpruned: DieSeg.nest).  NOT proved: the die-policy content for the classes whose report "
    "is made after part of the construct has been stored or inside a table (partial packet, table-key classes, frame and block "
    "classes) — for them only return value and log (C03_die_is_first); policies that accept some codes and reject others beyond "
    "C03_prefix_determinism; two defects when the first is one of the scanner-level classes (those are next_token statements, not segments)",
    "SCANNER LEVEL (Props/C12Scan.lean, C12ScanMulti.lean; Lemmas/LexDefect*.lean, LexReserved.lean): CIF_DISALLOWED_INITIAL_CHAR, "
    "CIF_DISALLOWED_CHAR (accepted unchanged; in CIF 1.1 a non-ASCII non-CIF character is reported TWICE), CIF_INVALID_CHAR for unpaired "
    "surrogates (replaced by U+FFFD / `*`), CIF_MISSING_SPACE, CIF_MISSING_ENDQUOTE, CIF_UNCLOSED_TEXT, CIF_OVERLENGTH_LINE, CIF_RESERVED_WORD — any "
    "scanner state in front, any admissible continuation behind, accept-all equation and die clause.  Group gW: a defective unit inside a COMMENT "
    "(C12_defective_unit_comment: same reports, no token, the loop goes on at the terminator as behind the clean comment; die clause); SEVERAL "
    "defective places in one token and an unpaired LEAD surrogate ANYWHERE followed by an ordinary character (C12_several_defects_name / _quoted / "
    "_comment, C12_invalid_char_lead_anywhere: a token body is any alternation of admissible runs and events; exactly the reports of the events, each "
    "at its column, in order; die = the oldest) — for data names, comments (ended by a line terminator or by the end of the input), whitespace-delimited values (both dialects; scan_unquoted's data_/save_ "
    "keyword state is carried along: multiS, C12_several_defects_bare), text fields (both dialects; positions and reports follow the line breaks "
    "inside the token: C12_several_defects_text), quoted and triple-quoted strings (CIF 2.0; C12_several_defects_triple).  NOT proved universally: "
    "several defective places in a CIF 1.1 quoted string (embedded quotes); a lead surrogate "
    "followed by another defective unit; CIF_UNMAPPED_CHAR and byte-level CIF_INVALID_CHAR (ICU's converter; family "
    "parsebytes of C03 observes them)",
    "CHARACTER LEVEL (Props/C12Chars, C12Frames, C12Die; Lemmas/DefectChars*, ParserReach): the token-level class theorems carried to whole parses "
    "of TEXTS — any chunk list accepted by okC (every admissible presentation of every token, any whitespace and comments between tokens), lines "
    "<= 2048, acceptable first character, any well-formed data blocks before and behind: rc, the EXACT list of reports (codes in order), the LINE of "
    "each (two candidates, as before), the content of the repaired document; no premise on the fuel.  24 classes with a data block as host (group "
    "gC); group gW: ANY segment of a block's element loop (C12_chars_segment) — hence defects INSIDE SAVE FRAMES at one level "
    "(C12_chars_in_frame, C12_chars_items_in_frame, written out for missing value, unexpected value, dup / invalid item name, partial packet), two "
    "levels (C12_chars_in_nested_frame) and ANY depth (C12_chars_in_frames over a nesting context, `Seg.nest`); TWO DEFECTS per text "
    "(C12_chars_two_defects, written out for missing value then duplicate name; C12_chars_dup_header_name_partial_packet); the DIE policy "
    "(C12_die_<class>, C12_die_<class>_in_frame: rc = code, one report, its line, content in front of the defect; what follows the defect is "
    "arbitrary accepted text); C12_chars_frame_not_allowed (max_frame_depth = 0, frame-free blocks around: Lemmas/DefectCharsPlain).  NOT carried "
    "to characters: classes that cannot occur in an okC text or are anchored inside a token — invalid table index and text field in key position "
    "(`.tkey` is not a token of Lemmas/LexGlue's `Tk`), C12_unquoted_key / C12_null_key_word (trimTok), CIF_INVALID_BARE_VALUE (no `Tk` presents "
    "such a value), C12_scanner_report_in_element_position; the die policy for the remaining classes (C12_die_in_frames covers any depth); the other item-level "
    "classes inside frames are one application of C12_chars_items_in_frame to their C12_seg_ theorem each (not written out)",
]
LEVEL_TEXT = ("Theorems about the executable integrated parser model + differential correspondence on planted defects (class x "
              "position x host, hosts with nested save frames, pairs of defects, several defective places in one token, the "
              "abort-on-error handler with content) with an implementation-level oracle: callbacks = documented codes at lines "
              "within the defect .. following token, recovered content = documented recovery applied to the host.")
LEVEL_NOTE = "see PARTIAL"
TECHNIQUE = "Lean 4 proof about an executable model + differential correspondence with an independent oracle"
