PROPERTY = "C02"
LEVEL = "proof"
LEAN_MODULES = ["CifModel.Props.C02", "CifModel.Props.C02Doc", "CifModel.Props.C02Total", "CifModel.Props.C02Column", "CifModel.Props.C02Lines", "CifModel.Props.C02Hyp", "CifModel.Props.C02Clean", "CifModel.Props.ReviewC02"]
REQUIRED = ["CifModel.C02_text_protocol", "CifModel.C02_fold_line_progress", "CifModel.C02_text_total",
            "CifModel.C02_flags_semis", "CifModel.C02_char_text_roundtrip",
            "CifModel.C02_analysis_facts", "CifModel.C02_write_char_text",
            "CifModel.C02_value_presented", "CifModel.C02_value_roundtrip", "CifModel.C02_unquoted_stays_unquoted",
            "CifModel.C02_total", "CifModel.C02_total_no_tables", "CifModel.C02_line_bound",
            "CifModel.C02_bare_value", "CifModel.C02_parse_value_roundtrip", "CifModel.C02_parse_item_roundtrip",
            "CifModel.C02_roundtrip_doc", "CifModel.C02_quoted_status", "CifModel.C02_output_units", "CifModel.C02_roundtrip_doc_instance", "CifModel.C02_roundtrip_doc_sample",
            "CifModel.C02_roundtrip_doc_nested",
            "CifModel.C02_key_refused_iff", "CifModel.C02_key_step_is_the_loop", "CifModel.C02_total_iff",
            "CifModel.C02_key_first_line_accepted", "CifModel.C02_key_first_line_written", "CifModel.C02_key_boundary",
            "CifModel.C02_cr_refused", "CifModel.C02_disallowed_char_refused", "CifModel.C02_write_char_opening_tests",
            "CifModel.C02_success_implies_clean",
            "CifModel.C02_last_column_exact", "CifModel.C02_last_column_exact_doc", "CifModel.C02_lastLineLength_spec",
            "CifModel.C02_clean_of_line_hypotheses", "CifModel.C02_cex_column_cr",
            "CifModel.C02_line_bound_chars", "CifModel.C02_line_hypotheses_chars", "CifModel.C02_charLength_le", "CifModel.C02_cex_line_units",
            "CifModel.C02_roundtrip_doc_nl", "CifModel.C02_line_bound_of_valid",
            "CifModel.C02_cex_hypotheses", "CifModel.C02_empty_loop_refused"]
GEN = ["WriterConsts", "ErrCodes"]
FAMILIES = ["decode", "writeval", "write", "wstatic"]
TRUSTED_BASE = [
    "Lean 4.33.0 kernel; axioms propext, Classical.choice, Quot.sound only",
    "tools/translate_writer.py: extraction of CIF_LINE_LENGTH, PREFIX, PREFIX_LENGTH, FOLDING_WINDOW, the literal 8 of target_length, "
    "the literal strings of the writer and cif11_chars[] (consumed by the link lemmas of Model/Writer.lean)",
    "harness/x_write.c, x_wstatic.c, x_decode.c, cifio.h and tools/gen/{write,writeval,wstatic,decode}.py: building CIFs through the public API, recording the "
    "walk order, cif_write to memory, cif_parse of the bytes, canonical dumps, the round-trip oracle, the reference text-field encoder; "
    "x_wstatic.c #includes ciffile.c and calls its static functions on a write_context_t set up as cif_write sets it up",
    "ICU u_fprintf / u_fputc: assumed to succeed and to return the number of UTF-16 units written; UTF-16 -> UTF-8 conversion",
    "Model/Analyze.lean (group gA) as the model of cif_analyze_string (the two facts the theorems need about it are proved here: C02_analysis_facts)",
]
ASSUMPTIONS = [
    "the output stream never fails (every u_fprintf/u_fputc succeeds)",
    "'the bytes written are valid UTF-8': the model's output is the sequence of UTF-16 units handed to the UFILE; C02_output_units proves it "
    "well-formed UTF-16 (no unpaired surrogate) of CIF 2.0 characters; the conversion of well-formed UTF-16 to valid UTF-8 is ICU's "
    "(u_fprintf on a UTF-8 UFILE) and is assumed — observed per case: family write decodes the bytes strictly as UTF-8",
    "strings contain no NUL; the round-trip, line-bound and last_column theorems are stated for CR-free strings (a string with a CR is refused "
    "by write_char: C02_cr_refused; behind that test cif_analyze_string would count a lone CR as a line terminator where the column "
    "accounting does not: C02_cex_column_cr)",
    "the order in which the store enumerates blocks, frames, loops, packets and items is an input of the writer model (observed per case)",
    "decode_text is modelled for a scanner without extra whitespace / end-of-line characters",
    "number texts are one line of BMP units (numbOk): true of every number the API parses or formats (ASCII number syntax, C10)",
]
PARTIAL = [
    "C02_total is SHARP (C02_total_iff, C02_key_refused_iff): on a writable CIF whose strings, number texts and keys are clean (containersClean "
    "false: no CR, only characters CIF 2.0 allows — the property's own precondition) cif_write (CIF 2.0) succeeds iff every table key the walk "
    "meets satisfies keyPresented, and returns CIF_DISALLOWED_VALUE iff it meets one that does not; keyPresented is a decidable predicate on "
    "the key alone (no CR; one line: length + 3 <= 2048 with one kind of quote missing, or length + 7 <= 2048 and triple-quotable; several "
    "lines: no line > 2048, last + 3 < 2048, first + 3 <= 2048, triple-quotable) — the column an entry starts in never matters.  NOT "
    "proved (review rB): that these are exactly the keys that 'cannot be written as a quoted or triple-quoted string' in the sense of an "
    "INDEPENDENT specification — 'cannot be written' here is the writer's own criterion keyFits (Lemmas/WriterKeys.lean); keyWritable is that "
    "criterion restated term for term (same Model.tripleOk), so C02_refused_key_unwritable / C02_presented_key_writable hold by unfolding and "
    "were removed from REQUIRED; the equivalence with 'some admissible quoted / triple-quoted presentation of Spec/Lexical.lean, followed by its "
    "colon, fits the lines' is open.  The finding F-key-first-line is repaired (regression instance C02_key_first_line_accepted / _written; the "
    "implementation-level oracle's key_quotable, written from the syntax, is checked per generated case)",
    "clause 1 strengthened (repairs of F-cr-altered, F-disallowed-char-written): write_char refuses a text with a CR (CIF_DISALLOWED_VALUE) and, in "
    "CIF 2.0 mode, a text with a character cif_has_disallowed_chars rejects (CIF_DISALLOWED_CHAR) before anything else (C02_cr_refused, "
    "C02_disallowed_char_refused, C02_write_char_opening_tests); hence C02_success_implies_clean: success of cif_write alone implies that every "
    "string, key and number text that reached write_char is CR-free and of allowed characters.  Its conclusion containersW false is WEAKER than "
    "containersClean false, the hypothesis of C02_total / C02_total_iff: containersW speaks only of texts that reach write_char (an unquoted number "
    "text that fits a line is printed by write_uliteral and is not covered; containersClean asks cleanliness of every number text), so the two do "
    "not form an iff 'succeeds <-> clean and all keys presented'.  Not proved: that this (the library's own "
    "character test) implies okUnits .cif2 of the lexical grammar — they differ in NUL (no C string holds one) and U+FEFF — so cifR's "
    "character conjunct is still a hypothesis of the round-trip theorems",
    "C02_roundtrip_doc_nl: the whole-document round trip (every policy, frames nested to any depth) needs only cifR (allowed characters, valid "
    "keys, one packet in the scalar loop, unquoted numbers are whitespace-delimited values) and blocksN (valid, pairwise different codes and "
    "names; loops with header and complete packets) — the line-length hypothesis containersL is derived from them; every remaining "
    "structural conjunct is necessary (C02_cex_hypotheses: the re-parse reports an error without it) and is an invariant of CIFs built through "
    "the API.  Quoted status as before (C02_quoted_status): exceptions are ';'-led unquoted strings and F-unquoted-overlong.  The "
    "unrestricted statement stays visible as C02_roundtrip_doc_full",
    "C02_line_bound_chars: no line of the output has more than 2048 CHARACTERS (units that do not continue a surrogate pair), for codes of <= "
    "2043 and loop-header names of <= 2048 characters (the API's limits), item names of ANY length (the writer tests them itself), strings "
    "without NUL / CR, number texts of BMP units; C02_line_bound (code units) is kept — its unit-length hypotheses are necessary for ITS "
    "conclusion (C02_cex_line_units: a code of 1022 supplementary characters gives a line of 2049 units, 1027 characters)",
    "C02_last_column_exact: after every writer step (every handler of the walk, every loop over elements / entries / items / packets / header "
    "names / loops / containers, any depth) last_column equals the number of units written since the last line feed, both versions, no "
    "hypothesis on lengths; needs item names and number texts without LF, strings without NUL / CR (the CR hypothesis is now vacuous for "
    "write_char — such a text is refused — and kept only in the statements; C02_cex_column_cr shows what the core would do); observed on "
    "the real code by family wstatic",
]
LEVEL_TEXT = ("Proof (partial): the line-folding / text-prefix protocol is proved to be an inverse pair — for every CR-free text and every "
              "combination of the fold and prefix flags decode_text(write_text body) = text (C02_text_protocol), lifted to write_char with the "
              "flags it derives (C02_char_text_roundtrip); fold_line is proved to make progress (never CIF_INTERNAL_ERROR); whole documents: "
              "round trip against the integrated parser model under cifR and blocksN alone (C02_roundtrip_doc_nl), line bound in characters "
              "(C02_line_bound_chars), last_column exact after every step (C02_last_column_exact), refusal exactly of the keys with "
              "keyPresented false (C02_total_iff). The writer and decode_text models are tied to /repo by translated constants (link lemmas) "
              "and byte-exact differential execution of cif_write on single values at chosen columns and on whole random CIFs, of the static "
              "writer functions called directly (family wstatic, incl. fold_line's fall-back scans, which cif_write never reaches), with a "
              "write -> cif_parse -> compare oracle on the real code.")
LEVEL_NOTE = ("Whole-document round trip (C02_roundtrip_doc_nl: every policy, save frames nested to any depth, hypotheses cifR and blocksN only — each "
              "necessary: C02_cex_hypotheses), line bound in characters, exact last_column and sharp totality are proved about the models and "
              "checked per generated case by the implementation-level oracle. Open finding: F-unquoted-overlong (F-key-first-line, F-cr-altered, "
              "F-disallowed-char-written are repaired: the model follows, regression lines in corpus/). "
              "Trusted: Lean kernel, translator, harness/oracle, ICU output conventions, Model/Analyze of group gA.")
TECHNIQUE = "Lean 4 proof about an executable model of the writer and of decode_text, tied to the sources by translated constants and byte-exact differential execution"
