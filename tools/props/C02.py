PROPERTY = "C02"
LEVEL = "proof"
LEAN_MODULES = ["CifModel.Props.C02", "CifModel.Props.C02Doc", "CifModel.Props.C02Total", "CifModel.Props.C02Column", "CifModel.Props.C02Lines", "CifModel.Props.C02Hyp", "CifModel.Props.ReviewC02"]
REQUIRED = ["CifModel.C02_text_protocol", "CifModel.C02_fold_line_progress", "CifModel.C02_text_total",
            "CifModel.C02_flags_semis", "CifModel.C02_char_text_roundtrip",
            "CifModel.C02_analysis_facts", "CifModel.C02_write_char_text",
            "CifModel.C02_value_presented", "CifModel.C02_value_roundtrip", "CifModel.C02_unquoted_stays_unquoted",
            "CifModel.C02_total", "CifModel.C02_total_no_tables", "CifModel.C02_line_bound",
            "CifModel.C02_bare_value", "CifModel.C02_parse_value_roundtrip", "CifModel.C02_parse_item_roundtrip",
            "CifModel.C02_roundtrip_doc", "CifModel.C02_quoted_status", "CifModel.C02_output_units", "CifModel.C02_roundtrip_doc_instance", "CifModel.C02_roundtrip_doc_sample",
            "CifModel.C02_roundtrip_doc_nested",
            "CifModel.C02_key_refused_iff", "CifModel.C02_key_step_is_the_loop", "CifModel.C02_total_iff",
            "CifModel.C02_presented_key_writable", "CifModel.C02_refused_key_unwritable_partial",
            "CifModel.C02_cex_key_first_line", "CifModel.C02_cex_key_first_line_refused", "CifModel.C02_key_boundary",
            "CifModel.C02_last_column_exact", "CifModel.C02_last_column_exact_doc", "CifModel.C02_lastLineLength_spec",
            "CifModel.C02_clean_of_line_hypotheses", "CifModel.C02_cex_column_cr", "CifModel.C02_cex_cr_written_raw",
            "CifModel.C02_line_bound_chars", "CifModel.C02_line_hypotheses_chars", "CifModel.C02_charLength_le", "CifModel.C02_cex_line_units",
            "CifModel.C02_roundtrip_doc_nl", "CifModel.C02_line_bound_of_valid",
            "CifModel.C02_cex_hypotheses", "CifModel.C02_empty_loop_refused"]
GEN = ["WriterConsts", "ErrCodes"]
FAMILIES = ["decode", "writeval", "write", "wstatic"]
TRUSTED_BASE = [
    "Lean 4.33.0 kernel; axioms propext, Classical.choice, Quot.sound only",
    "tools/translate_writer.py: extraction of CIF_LINE_LENGTH, PREFIX, PREFIX_LENGTH, FOLDING_WINDOW, the literal 8 of target_length, "
    "the literal strings of the writer and cif11_chars[] (consumed by the link lemmas of Model/Writer.lean)",
    "harness/x_write.c, x_decode.c, cifio.h and tools/gen/{write,writeval,decode}.py: building CIFs through the public API, recording the "
    "walk order, cif_write to memory, cif_parse of the bytes, canonical dumps, the round-trip oracle and the reference text-field encoder",
    "ICU u_fprintf / u_fputc: assumed to succeed and to return the number of UTF-16 units written; UTF-16 -> UTF-8 conversion",
    "Model/Analyze.lean (group gA) as the model of cif_analyze_string (the two facts the theorems need about it are proved here: C02_analysis_facts)",
]
ASSUMPTIONS = [
    "the output stream never fails (every u_fprintf/u_fputc succeeds)",
    "'the bytes written are valid UTF-8': the model's output is the sequence of UTF-16 units handed to the UFILE; C02_output_units proves it "
    "well-formed UTF-16 (no unpaired surrogate) of CIF 2.0 characters; the conversion of well-formed UTF-16 to valid UTF-8 is ICU's "
    "(u_fprintf on a UTF-8 UFILE) and is assumed — observed per case: family write decodes the bytes strictly as UTF-8",
    "strings contain no NUL and, for the text protocol theorems, no CR (C02 is stated for CR-free strings)",
    "the order in which the store enumerates blocks, frames, loops, packets and items is an input of the writer model (observed per case)",
    "decode_text is modelled for a scanner without extra whitespace / end-of-line characters",
]
PARTIAL = [
    "C02_roundtrip_doc (whole documents against group gJ's integrated parser model) is PROVED for every callback policy: writeCif 0 cif = ok out "
    "-> parse = CIF_OK, no report, and the blocks / frames / loops / packets / values written come back (backBlock), under cifR (allowed "
    "characters, valid codes / names / keys, the scalar loop has one packet, an unquoted number that fits a line is a whitespace-delimited "
    "value), blocksN (valid and pairwise different codes and names, loops with header and packets) and containersL (C02_line_bound's "
    "hypotheses); restricted to ONE level of save frames (what Spec/Grammar documents express); the unrestricted statement stays visible as "
    "C02_roundtrip_doc_full; quoted status is part of the equivalence (backV): quoted stays quoted, an unquoted string stays unquoted whenever the writer's "
    "test bareWritable holds — by bareWritable_iff / C02_quoted_status the only unquoted API strings that come back quoted are those "
    "beginning with ';' (the property's exception) and those longer than a line (known finding F-unquoted-overlong); an unquoted number "
    "stays unquoted whenever its text fits a line",
    "C02_line_bound is proved for whole documents (both versions, every walk order) in code UNITS (hence characters), under containersL: "
    "codes/names fit a line, strings without NUL/CR, number texts one line of BMP units of any length",
    "C02_total is proved for whole documents (every walk order): writable CIF -> CIF_OK, or CIF_DISALLOWED_VALUE and the CIF holds a table "
    "entry; the sharper witness (that very key cannot be quoted with room for its colon) is checked per case by the oracle only",
]
LEVEL_TEXT = ("Proof (partial): the line-folding / text-prefix protocol is proved to be an inverse pair — for every CR-free text and every "
              "combination of the fold and prefix flags decode_text(write_text body) = text (C02_text_protocol), lifted to write_char with the "
              "flags it derives (C02_char_text_roundtrip); fold_line is proved to make progress (never CIF_INTERNAL_ERROR). The writer and "
              "decode_text models are tied to /repo by translated constants (link lemmas) and byte-exact differential execution of cif_write "
              "on single values at chosen columns and on whole random CIFs, with a write -> cif_parse -> compare oracle on the real code.")
LEVEL_NOTE = ("Whole-document round trip (C02_roundtrip_doc, every policy, save frames nested to any depth — hypothesis frameN: a frame that holds frames needs a parser with max_frame_depth ≠ 1; instance with three levels C02_roundtrip_doc_nested), line bound and totality are proved about the "
              "models and checked per generated case by the implementation-level oracle. Trusted: Lean kernel, translator, harness/oracle, ICU "
              "output conventions, Model/Analyze of group gA.")
TECHNIQUE = "Lean 4 proof about an executable model of the writer and of decode_text, tied to the sources by translated constants and byte-exact differential execution"
