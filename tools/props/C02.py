PROPERTY = "C02"
LEVEL = "proof"
LEAN_MODULES = ["CifModel.Props.C02", "CifModel.Props.C02Doc", "CifModel.Props.C02Total", "CifModel.Props.C02Column", "CifModel.Props.C02Lines", "CifModel.Props.C02Hyp", "CifModel.Props.ReviewC02"]
REQUIRED = ["CifModel.C02_text_protocol", "CifModel.C02_fold_line_progress", "CifModel.C02_text_total",
            "CifModel.C02_flags_semis", "CifModel.C02_char_text_roundtrip",
            "CifModel.C02_analysis_facts", "CifModel.C02_write_char_text",
            "CifModel.C02_value_presented", "CifModel.C02_value_roundtrip", "CifModel.C02_unquoted_stays_unquoted",
            "CifModel.C02_total", "CifModel.C02_total_no_tables", "CifModel.C02_line_bound",
            "CifModel.C02_bare_value", "CifModel.C02_parse_value_roundtrip", "CifModel.C02_parse_item_roundtrip",
            "CifModel.C02_roundtrip_doc", "CifModel.C02_quoted_status", "CifModel.C02_output_units", "CifModel.C02_roundtrip_doc_instance", "CifModel.C02_roundtrip_doc_sample",
            "CifModel.C02_roundtrip_doc_nested",
            "CifModel.C02_key_refused_iff", "CifModel.C02_key_step_is_the_loop", "CifModel.C02_total_iff",
            "CifModel.C02_presented_key_writable", "CifModel.C02_refused_key_unwritable_partial",
            "CifModel.C02_cex_key_first_line", "CifModel.C02_cex_key_first_line_refused", "CifModel.C02_key_boundary",
            "CifModel.C02_last_column_exact", "CifModel.C02_last_column_exact_doc", "CifModel.C02_lastLineLength_spec",
            "CifModel.C02_clean_of_line_hypotheses", "CifModel.C02_cex_column_cr", "CifModel.C02_cex_cr_written_raw",
            "CifModel.C02_line_bound_chars", "CifModel.C02_line_hypotheses_chars", "CifModel.C02_charLength_le", "CifModel.C02_cex_line_units",
            "CifModel.C02_roundtrip_doc_nl", "CifModel.C02_line_bound_of_valid",
            "CifModel.C02_cex_hypotheses", "CifModel.C02_empty_loop_refused"]
GEN = ["WriterConsts", "ErrCodes"]
FAMILIES = ["decode", "writeval", "write", "wstatic"]
TRUSTED_BASE = [
    "Lean 4.33.0 kernel; axioms propext, Classical.choice, Quot.sound only",
    "tools/translate_writer.py: extraction of CIF_LINE_LENGTH, PREFIX, PREFIX_LENGTH, FOLDING_WINDOW, the literal 8 of target_length, "
    "the literal strings of the writer and cif11_chars[] (consumed by the link lemmas of Model/Writer.lean)",
    "harness/x_write.c, x_wstatic.c, x_decode.c, cifio.h and tools/gen/{write,writeval,wstatic,decode}.py: building CIFs through the public API, recording the "
    "walk order, cif_write to memory, cif_parse of the bytes, canonical dumps, the round-trip oracle, the reference text-field encoder; "
    "x_wstatic.c #includes ciffile.c and calls its static functions on a write_context_t set up as cif_write sets it up",
    "ICU u_fprintf / u_fputc: assumed to succeed and to return the number of UTF-16 units written; UTF-16 -> UTF-8 conversion",
    "Model/Analyze.lean (group gA) as the model of cif_analyze_string (the two facts the theorems need about it are proved here: C02_analysis_facts)",
]
ASSUMPTIONS = [
    "the output stream never fails (every u_fprintf/u_fputc succeeds)",
    "'the bytes written are valid UTF-8': the model's output is the sequence of UTF-16 units handed to the UFILE; C02_output_units proves it "
    "well-formed UTF-16 (no unpaired surrogate) of CIF 2.0 characters; the conversion of well-formed UTF-16 to valid UTF-8 is ICU's "
    "(u_fprintf on a UTF-8 UFILE) and is assumed — observed per case: family write decodes the bytes strictly as UTF-8",
    "strings contain no NUL and, for the round-trip, line-bound and last_column theorems, no CR: a CR is written raw and read back as LF "
    "(open finding F-cr-altered, C02_cex_cr_written_raw), and cif_analyze_string counts a lone CR as a line terminator where the column "
    "accounting does not (C02_cex_column_cr)",
    "the order in which the store enumerates blocks, frames, loops, packets and items is an input of the writer model (observed per case)",
    "decode_text is modelled for a scanner without extra whitespace / end-of-line characters",
    "number texts are one line of BMP units (numbOk): true of every number the API parses or formats (ASCII number syntax, C10)",
]
PARTIAL = [
    "C02_total is now SHARP (C02_total_iff, C02_key_refused_iff): on a writable CIF cif_write (CIF 2.0) succeeds iff every table key the walk meets "
    "satisfies keyPresented, and returns CIF_DISALLOWED_VALUE iff it meets one that does not; keyPresented is a decidable predicate on the key "
    "alone (one line: length + 3 <= 2048 with one kind of quote missing, or length + 7 <= 2048 and triple-quotable; several lines: no line > 2048, "
    "last + 3 < 2048, first + 3 < 2048, triple-quotable) — the column an entry starts in never matters.  It differs from the specification "
    "keyWritable (what syntax and line limit admit) in ONE place: a multi-line key whose first line has exactly 2045 units is refused although "
    "writable — open finding F-key-first-line (C02_cex_key_first_line; C02_refused_key_unwritable_partial proves there is no other difference)",
    "C02_roundtrip_doc_nl: the whole-document round trip (every policy, frames nested to any depth) needs only cifR (allowed characters, valid "
    "keys, one packet in the scalar loop, unquoted numbers are whitespace-delimited values) and blocksN (valid, pairwise different codes and "
    "names; loops with header and complete packets) — the line-length hypothesis containersL is derived from them; every remaining conjunct is "
    "necessary (C02_cex_hypotheses: the re-parse reports an error without it) and is an invariant of CIFs built through the API, except "
    "'strings of CIF 2.0 characters' and 'no CR', which the API does not enforce for values: open findings F-disallowed-char-written and "
    "F-cr-altered.  Quoted status as before (C02_quoted_status): exceptions are ';'-led unquoted strings and F-unquoted-overlong.  The "
    "unrestricted statement stays visible as C02_roundtrip_doc_full",
    "C02_line_bound_chars: no line of the output has more than 2048 CHARACTERS (units that do not continue a surrogate pair), for codes of <= "
    "2043 and loop-header names of <= 2048 characters (the API's limits), item names of ANY length (the writer tests them itself), strings "
    "without NUL / CR, number texts of BMP units; C02_line_bound (code units) is kept — its unit-length hypotheses are necessary for ITS "
    "conclusion (C02_cex_line_units: a code of 1022 supplementary characters gives a line of 2049 units, 1027 characters)",
    "C02_last_column_exact: after every writer step (every handler of the walk, every loop over elements / entries / items / packets / header "
    "names / loops / containers, any depth) last_column equals the number of units written since the last line feed, both versions, no "
    "hypothesis on lengths; needs item names and number texts without LF, strings without NUL / CR (necessary: C02_cex_column_cr); observed on "
    "the real code by family wstatic (last_column printed after direct calls of write_text / write_char / write_item / write_literal / "
    "write_uliteral)",
]
LEVEL_TEXT = ("Proof (partial): the line-folding / text-prefix protocol is proved to be an inverse pair — for every CR-free text and every "
              "combination of the fold and prefix flags decode_text(write_text body) = text (C02_text_protocol), lifted to write_char with the "
              "flags it derives (C02_char_text_roundtrip); fold_line is proved to make progress (never CIF_INTERNAL_ERROR); whole documents: "
              "round trip against the integrated parser model under cifR and blocksN alone (C02_roundtrip_doc_nl), line bound in characters "
              "(C02_line_bound_chars), last_column exact after every step (C02_last_column_exact), refusal exactly of the keys with "
              "keyPresented false (C02_total_iff). The writer and decode_text models are tied to /repo by translated constants (link lemmas) "
              "and byte-exact differential execution of cif_write on single values at chosen columns and on whole random CIFs, of the static "
              "writer functions called directly (family wstatic, incl. fold_line's fall-back scans, which cif_write never reaches), with a "
              "write -> cif_parse -> compare oracle on the real code.")
LEVEL_NOTE = ("Whole-document round trip (C02_roundtrip_doc_nl: every policy, save frames nested to any depth, hypotheses cifR and blocksN only — each "
              "necessary: C02_cex_hypotheses), line bound in characters, exact last_column and sharp totality are proved about the models and "
              "checked per generated case by the implementation-level oracle. Open findings: F-unquoted-overlong, F-key-first-line (a writable "
              "multi-line key refused), F-cr-altered (CR written raw), F-disallowed-char-written (CIF 2.0 mode does not validate characters). "
              "Trusted: Lean kernel, translator, harness/oracle, ICU output conventions, Model/Analyze of group gA.")
TECHNIQUE = "Lean 4 proof about an executable model of the writer and of decode_text, tied to the sources by translated constants and byte-exact differential execution"
