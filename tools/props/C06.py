PROPERTY = "C06"
LEVEL = "proof"
LEAN_MODULES = ["CifModel.Props.C06", "CifModel.Props.C04", "CifModel.Model.StoreSchema", "CifModel.Props.ReviewC06"]
REQUIRED = ["CifModel.C06_delivers_each_once", "CifModel.C06_packet_complete", "CifModel.C06_open", "CifModel.C06_caller_packet", "CifModel.C06_open_wf", "CifModel.C06_open_refused",
            "CifModel.C06_state_machine", "CifModel.C06_update_only_named_items", "CifModel.C06_close_commits", "CifModel.C06_abort_reverts",
            "CifModel.C06_frees_cif", "CifModel.C04_inv_reachable", "CifModel.Store.schema_sql_link", "CifModel.Store.C05_paths_link"]
GEN = ["ErrCodes", "Schema"]
FAMILIES = ["iter"]
EXHAUSTIVE = True
TRUSTED_BASE = [
    "Lean 4.33.0 kernel; axioms propext, Quot.sound, Classical.choice only (audited per theorem)",
    "tools/translate_schema.py + link theorems (GET_LOOP_VALUES_SQL, REMOVE_PACKET_SQL, UPDATE_VALUE_SQL, RESET_PACKET_NUM_SQL, the SAVE/RELEASE/ROLLBACK_TO "
    "uses of pktitr.c)",
    "assumption made explicit: SQLite evaluates GET_LOOP_VALUES_SQL on the state at iterator creation (rows replaced/removed through the iterator are not "
    "revisited) — validated by the exhaustive correspondence on one-item and several-item loops",
    "harness/x_iter.c (= x_store.c), tools/gen/iter.py (exhaustive call words, C06 replayed on the dump), lean/Driver/Fam/Iter.lean",
]
ASSUMPTIONS = ["Iter.WF (the pending rows can be delivered, positive row numbers) is a hypothesis of the call-sequence theorems; C06_open_wf proves it "
               "for every iterator opened in a state satisfying the store invariant, i.e. (C04_inv_reachable) in every reachable state"]
PARTIAL = []
LEVEL_TEXT = ("Proof: over ALL sequences of next/update/remove calls (induction over the call list) the packets delivered are exactly the loop's packets "
              "in order, each once, complete with unknown values; the return code of every call is a function of the life-cycle state; close commits, "
              "abort restores the store at creation, either way the CIF is free. Correspondence: every call word up to length 4 (quick) / 6 (thorough) "
              "for each loop shape, exhaustively.")
LEVEL_NOTE = ("Trusted: Lean kernel, translator, SQLite semantics as modelled (materialised result set, transactions), executor/generator/oracle. "
              "Iter.WF is established by C06_open_wf for reachable states.")
TECHNIQUE = "Lean 4 proof (induction over iterator call sequences on a transactional store model) + exhaustive differential execution of short call sequences"
