PROPERTY = "C06"
LEVEL = "proof"
LEAN_MODULES = ["CifModel.Props.C06", "CifModel.Props.C04", "CifModel.Model.StoreSchema", "CifModel.Props.ReviewC06", "CifModel.Props.ReviewRC06", "CifModel.Lemmas.StoreSpecIter"]
REQUIRED = ["CifModel.C06_delivers_each_once", "CifModel.C06_packet_complete", "CifModel.C06_open", "CifModel.C06_caller_packet", "CifModel.C06_open_wf", "CifModel.C06_open_refused",
            "CifModel.C06_state_machine", "CifModel.C06_update_only_named_items", "CifModel.C06_close_commits", "CifModel.C06_abort_reverts",
            "CifModel.C06_frees_cif", "CifModel.C06_packet_is_stored", "CifModel.C06_open_refines", "CifModel.C06_refines_calls",
            "CifModel.C06_close_abort_refine", "CifModel.C06_documented_codes", "CifModel.C06_pending_at_open", "CifModel.C06_next_in_history",
            "CifModel.C06_pending_kept", "CifModel.C06_delivers_in_history", "CifModel.C06_delivers_in_any_history", "CifModel.C06_session_in_history", "CifModel.C04_refines", "CifModel.C04_refines_hist",
            "CifModel.Store.step_other", "CifModel.C04_wok_step", "CifModel.C04_iterator_tied", "CifModel.C04_second_get_packets_refused", "CifModel.C04_inv_reachable", "CifModel.Store.schema_sql_link", "CifModel.Store.C05_paths_link"]
GEN = ["ErrCodes", "Schema"]
FAMILIES = ["iter"]
EXHAUSTIVE = True
TRUSTED_BASE = [
    "Lean 4.33.0 kernel; axioms propext, Quot.sound, Classical.choice only (audited per theorem)",
    "tools/translate_schema.py + link theorems (GET_LOOP_VALUES_SQL, REMOVE_PACKET_SQL, UPDATE_VALUE_SQL, RESET_PACKET_NUM_SQL, the SAVE/RELEASE/ROLLBACK_TO "
    "uses of pktitr.c)",
    "assumption made explicit: SQLite evaluates GET_LOOP_VALUES_SQL on the state at iterator creation (rows replaced/removed through the iterator are not "
    "revisited) — validated by the exhaustive correspondence on one-item and several-item loops",
    "harness/x_iter.c (= x_store.c), tools/gen/iter.py (exhaustive call words, C06 replayed on the dump), lean/Driver/Fam/Iter.lean",
]
ASSUMPTIONS = ["Iter.WF (the pending rows can be delivered, positive row numbers) is a hypothesis of the call-sequence theorems; C06_open_wf proves it "
               "for every iterator opened in a state satisfying the store invariant, i.e. (C04_inv_reachable) in every reachable state"]
PARTIAL = [
    "the six iterator calls are cases of specStep / C04_refines / C04_refines_hist over whole histories (world-level abstraction: the iterator "
    "table holds abstract iterators AIter): in every in-contract history (Model/StoreContract inContract: while the iterator is open only its own "
    "calls — and a refused further get_packets — work on its CIF; update packets are maps) started from a WOk world the calls do to the documented "
    "model exactly what specItOpen / specItNext / specItUpdate / specItRemove / close (content stays) / abort (content := AIter.start) say. "
    "On top: C06_pending_at_open, C06_next_in_history, C06_pending_kept, C06_delivers_in_history, C06_session_in_history — in ANY in-contract "
    "history (calls on other CIFs, other iterators' sessions, refused get_packets in between) the packets an iterator delivers are a prefix of the "
    "loop's packets in the documented model at its creation, each once, in order; CIF_FINISHED exactly when all were delivered. C06_delivers_in_any_history has no "
    "restriction on the history (a close / abort of the iterator inside it ends the deliveries: step_dead); C06_delivers_in_history / "
    "C06_session_in_history additionally say what is still pending afterwards and therefore consider a segment that does not close or abort "
    "the iterator; the store-level statements C06_open_refines, C06_refines_calls, C06_close_abort_refine, C06_packet_is_stored remain "
    "(they are what the world-level cases are composed from)",
    "'for a loop that no longer exists cif_loop_get_packets returns CIF_INVALID_HANDLE' is OUT of contract inside histories (okLOpen = the CIF is "
    "busy, or the handle is valid): the history theorems carry it only for a busy CIF (specItOpenRefused); for a free CIF the one-step "
    "C06_open_refused (store level: no items => CIF_INVALID_HANDLE) is all there is. C06_pending_kept / step_other ('no other op changes what is "
    "pending') hold largely BY the contract (every non-iterator call on the iterated CIF is out of contract); what is left is independence of "
    "CIFs, the refused second get_packets, and own update / remove acting behind the position",
    "exactly-once delivery rests on distinct row numbers per packet: IterOk.keys (item_value's primary key, part of Inv) and IterOk.sorted",
    "update packets with a repeated key are excluded (Call.keysOk: a packet is a map); an update naming an item of another loop is "
    "CIF_WRONG_LOOP and changes nothing (ROLLBACK_TO)",
    "the older statements through the model's own packet builder (C06_delivers_each_once, C06_packet_complete: groups / fill) remain; "
    "C06_packet_is_stored replaces them as the statement of WHAT is delivered",
    "a failing COMMIT in cif_pktitr_close is C17's (C17_close_fault_is_abort); iterators of OTHER CIFs are untouched (cifs_independent)",
    "'the scalar loop holds at most one packet' is proved as a counter fact (Inv.scalarRows: last_row_num <= 1) plus RowsBelowAll / ScalarCount "
    "(C04_rows_below), not as a separate C06 theorem",
]
LEVEL_TEXT = ("Proof: over ALL sequences of next/update/remove calls (induction over the call list) the packets delivered are exactly the loop's packets "
              "in order, each once, complete with unknown values; the return code of every call is a function of the life-cycle state; close commits, "
              "abort restores the store at creation, either way the CIF is free. Correspondence: every call word up to length 4 (quick) / 6 (thorough) "
              "for each loop shape, exhaustively.")
LEVEL_NOTE = ("Trusted: Lean kernel, translator, SQLite semantics as modelled (materialised result set, transactions), executor/generator/oracle. "
              "Iter.WF is established by C06_open_wf for reachable states.")
TECHNIQUE = "Lean 4 proof (induction over iterator call sequences on a transactional store model) + exhaustive differential execution of short call sequences"
