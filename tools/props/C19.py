PROPERTY = "C19"
LEVEL = "proof"
LEAN_MODULES = ["CifModel.Props.C19", "CifModel.Props.ReviewC19", "CifModel.Props.C19Hist", "CifModel.Props.ReviewRC19"]
REQUIRED = ["CifModel.C19_list_is_sequence", "CifModel.C19_table_is_map", "CifModel.C19_table_invalid_key",
            "CifModel.C19_table_history", "CifModel.C19_packet_is_map", "CifModel.C19_packet_create", "CifModel.C19_wrong_kind",
            "CifModel.C19_clone_equal", "CifModel.C19_reinit_result_independent", "CifModel.C19_reinit_releases",
            "CifModel.C19_clone_reads_source", "CifModel.C19_put_copies_addr", "CifModel.C19_set_element_addr", "CifModel.C19_map_set_item_addr",
            "CifModel.C19_clone_onto_addr", "CifModel.C19_members_by_reference", "CifModel.C19_packet_create_dup", "CifModel.C19_cex_packet_create_dup_pinned",
            "CifModel.C19_cex_clone_alias_pinned",
            "CifModel.C19_clone_disjoint", "CifModel.C19_put_copies", "CifModel.C19_remove_transfers",
            "CifModel.C19_remove_transfers_entry", "CifModel.C19_reinit_releases_heap", "CifModel.C19_capacity_growth",
            "CifModel.C16_map_heap_safe", "CifModel.C16_map_set_item_heap_safe", "CifModel.C16_map_remove_item_heap_safe",
            "CifModel.C16_cex_F10_pinned", "CifModel.C19_clone_onto_repaired", "CifModel.C19_set_replaces_in_place",
            "CifModel.C16_packet_create_heap_safe", "CifModel.C16_get_keys_heap_safe", "CifModel.C19_clone_onto_heap", "CifModel.C19_reinit_heap",
            # operation histories (group gM, Props/C19Hist.lean)
            "CifModel.C19_history_heap", "CifModel.C19_history_owned", "CifModel.C19_history_release", "CifModel.C19_history_trace",
            "CifModel.C19_step_heap", "CifModel.C19_clone_onto_member_heap", "CifModel.C19_history_pure_is_spec", "CifModel.C19_pure_is_spec_any",
            "CifModel.C19_history_get_owned",
            "CifModel.C19_nested_update_exact", "CifModel.C19_nested_putP_exact", "CifModel.C19_refs_distinct", "CifModel.C19_history_get"]
GEN = ["ErrCodes", "ValueCols"]
FAMILIES = ["val", "valheap"]
TRUSTED_BASE = [
    "Lean 4.33.0 kernel; axioms propext, Classical.choice, Quot.sound only (audited per theorem on every run)",
    "uthash allocates exactly two blocks (table, bucket array) while a map is non-empty and none otherwise (family valheap "
    "observes it, including tables grown past the bucket expansions: the bucket array is replaced block for block)",
    "uthash as an insertion-ordered map (HASH_ADD appends to the application order, HASH_FIND finds the entry of a key, "
    "HASH_DEL removes it) — observed by family val",
    "key normalisation is a parameter of the model (`norm`); the requests carry the normalised forms, computed by Python's "
    "unicodedata for a pool of keys on which it agrees with ICU (checked by the run itself: a disagreement shows as a "
    "different lookup result)",
    "harness/x_val.c, x_gg.h, cifio.h and tools/gen/{val,ggvals}.py (executor, dumper, generator, reference implementation "
    "of the documented contracts used as oracle)",
]
ASSUMPTIONS = [
    "memory safety of the C (no out-of-bounds access, no double free) is observed by running family val under ASan/UBSan; "
    "the heap-level model proves the ownership protocol, not the C code",
]
PARTIAL = [
    "clone equality and 'containers copy what is put in': the pure-level statements are definitional (clone = id on immutable "
    "trees); the statements with content are at heap level — C19_clone_reads_source (cloneH follows the source's pointers cell by "
    "cell and is proved to yield a disjoint structure representing the same value, source unchanged), C19_put_copies_addr / "
    "C19_set_element_addr / C19_map_set_item_addr / C19_clone_onto_addr (the operations take the ADDRESS of the caller's object), "
    "and — any target (free-standing object, list element, inline value of a map entry), any position of the source (inside the "
    "target, around it, the target itself) — C19_clone_onto_member_heap and, re-assembled into the enclosing roots, C19_step_heap "
    "for the operations lset / mset on an existing member / cln. (mapSetItemAddrH / listSetAddrH of the single-operation theorems "
    "take the copy after releasing the old value; the history interpreter runH uses the C's order — scratch copy first — "
    "throughout: Hist.cloneOntoAt)",
    "operation HISTORIES are theorems now: C19_history_heap (for ALL op lists of the language Hist.HOp — new, bld, free, cln, init, "
    "ichr, lget, lset, lins, lrem, mget, mset, mrem, pnew, pfree over 8 value and 4 packet slots, members by paths of any depth — the "
    "state runH reaches from the empty heap is well-formed and represents the state runP reaches: every occupied slot an object "
    "representing the pure value, footprints of different slots disjoint, every live block in exactly one footprint), "
    "C19_history_release (releasing all slots then frees every block, each once), C19_nested_update_exact (pure level), and "
    "C19_history_pure_is_spec: the TIED pure interpreter stepP? / runP agrees with the independent specification Spec/ValueSpec in "
    "every state of every history, for the object at any path — a list is a sequence (seqInsert / seqSet / seqRemove / seqGet, "
    "CIF_INVALID_INDEX exactly where undefined), a table or packet is an abstract map keyed by the normalised key (AMap.set / erase / "
    "lookup), wrong-kind calls change nothing — so C19_history_heap composes to 'the heap represents what the specification says'. "
    "Limits of that theorem: the erase clause assumes the table operated on has no key twice (nodupKeys; every table the API builds "
    "has none — C19_table_is_map — but `bld` accepts any V, also one with a repeated key below the top level, and that invariant is "
    "not carried through histories); for a set on an EXISTING key the value part is stated as the member assignment setValueP after "
    "the AMap.set that records the spelling (its effect on the member and on nothing else: C19_nested_putP_exact); result codes are "
    "not part of the history language (refused / unresolved / duplicate all read 'nothing happens'). The history theorems carry no fuel hypothesis: the interpreter computes the fuel of the pointer-following heap "
    "functions from the heap (fuelOf h = 3*h.next + 9), which is proved sufficient (Rep_nodup, Rep_need, RepS.fitsAt: a footprint lists "
    "each block once below the bump pointer). The pointer tests of the C (`src == dst`) are made on addresses by the heap interpretation and on references by the "
    "pure one; C19_refs_distinct proves the two agree (different references designate different blocks). What the history theorems do "
    "NOT say: (iii) cif_packet_create with two "
    "names for one item leaves the model state as it was (the blocks it allocated and released again are not recorded; "
    "C16_packet_create_heap_safe proves they are all released); (iv) the numeric re-initialisers are OUTSIDE the op "
    "language: HOp has init (kind NUMB = the number 0), ichr (init_char / copy_char) only — cif_value_init_numb with a general number, "
    "cif_value_autoinit_numb and cif_value_parse_numb on an existing object or member are not operations of the history theorems nor "
    "of families val / valheap; for them 'releases the previous content' is gG's single-operation C19_reinit_heap on free-standing "
    "objects (heap transformation = Hist.buildOntoAt with the number as value); (v) cif_packet_create with an INVALID name (the "
    "normaliser fails after earlier names were allocated) has no heap model: pnew with such a name is 'nothing happens' on both "
    "sides; (vi) pointer STABILITY across operations (an address handed out by get stays the address of that member while other "
    "objects are operated on) is not stated: C19_step_heap relates the new footprints to the old ones only inside its proof; (vii) "
    "allocation failures (C17) and convert_to_standalone (unreachable) are outside the op language",
    "failure paths of the re-initialisers (cif_value_parse_numb / copy_char on invalid input leave the object as it was) are "
    "modelled at pure level only (Model/Numb, C10); reinitH / Hist.buildOntoAt model the successful path",
    "the heap model is tied to value.c / map.c / packet.c by family valheap, whose driver EXECUTES Hist.traceH (= the runH states of "
    "all prefixes, C19_history_trace): for every operation of the same random sequences "
    "(a) the change in the number of live blocks reported by the allocation tracker (harness/alloc.h) equals the change the heap "
    "model predicts (model cells + 2 blocks per non-empty uthash map), (b) a walk of the real structures from the slots reaches "
    "every live block exactly once (ownership: no orphan, no block owned twice), (c) the CONTENTS of all string blocks (texts, "
    "digit strings, su digit strings, normalised keys, original spellings) equal, as a multiset (count + sum of FNV-1a hashes), "
    "the contents of the model's str cells, and everything is released at the end (Hist.releaseAll); tables grown past uthash's "
    "bucket expansions (330-900 entries) are part of the stream. The pure interpretation runP is tied by family val: its driver runs "
    "Hist.stepP next to the older interpreter and both must give the same state after every operation (`!hist` otherwise), and "
    "that state's dump is compared with the library's. Not compared: addresses, the order of allocation, the scalar "
    "fields of the structs (kind, quoted, sign, scale, size, capacity: these are compared through the API by family val)",
]
LEVEL_TEXT = ("Proof about an executable Lean model at two levels. Pure level: list operations are the sequence operations with exactly "
              "the documented CIF_INVALID_INDEX conditions; table and packet operations refine an abstract map keyed by the normalised "
              "key (any history, key enumeration in insertion order with the latest spelling); wrong-kind calls. "
              "Heap level (explicit addresses, malloc/free, ownership predicate): the clone READS its source cell by cell (cloneH) and "
              "yields, for a value of any depth, a structure on fresh blocks that represents the same value, source untouched, "
              "clone+release restores the heap; insert / set / map set take the address of the caller's object; members are handed "
              "out by reference and writing through the pointer is writing the container; re-initialisers release exactly the old "
              "footprint; releasing a value frees exactly its footprint, each block "
              "once; insert copies; remove transfers ownership; the key/key_orig aliasing protocol of map entries (F10). "
              "Operation HISTORIES (Model/HeapHist: op language over 8 value + 4 packet slots, members by paths, sources by reference with "
              "any aliasing): by induction over the op list, every state reachable from the empty heap is well-formed and represents the "
              "pure state (each live block owned by exactly one slot), and releasing all slots frees every block once "
              "(C19_history_heap, C19_history_release; one-step form from any represented state C19_step_heap); pure level: "
              "C19_history_pure_is_spec (the tied pure interpreter agrees with Spec/ValueSpec: lists as sequences, tables / packets as "
              "maps, at any path, in any history), C19_nested_update_exact. Tied to the C "
              "by family val: random operation sequences on the real library under ASan/UBSan, compared step by step with the pure "
              "model and, independently, with a Python transcription of the documented contracts; and by family valheap: the same "
              "sequences with the allocation tracker on, the per-operation change in live heap blocks, the ownership of every live block and the contents of "
              "all string blocks compared with the heap model run on the sequence (the model's clone is cloneH, reading the source).")
LEVEL_NOTE = ("Pure level proved in full. Heap level proved for every value / list / map / packet operation except the unreachable "
              "convert_to_standalone and allocation failures (C17), for single operations and — for the operations of the history "
              "language Hist.HOp, which has no numeric re-initialiser beyond init-to-0 (see PARTIAL) — for whole histories (any op list, from "
              "the empty heap; the interpreter the theorem is about is the one family valheap executes). The two defects this property found (F35 source inside the clone "
              "target / self-clone, F36 duplicate names in cif_packet_create) are repaired in the sources (f1b092b, c571e89); the "
              "model follows the repaired code, the pinned behaviour is kept as counterexample theorems (C19_cex_*_pinned). No open finding.")
TECHNIQUE = "Lean 4 proof (refinement of an association list to an abstract map; induction over operation histories) + differential execution of random operation sequences under ASan"
