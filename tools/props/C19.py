PROPERTY = "C19"
LEVEL = "proof"
LEAN_MODULES = ["CifModel.Props.C19"]
REQUIRED = ["CifModel.C19_list_is_sequence", "CifModel.C19_table_is_map", "CifModel.C19_table_invalid_key",
            "CifModel.C19_table_history", "CifModel.C19_packet_is_map", "CifModel.C19_packet_create", "CifModel.C19_wrong_kind",
            "CifModel.C19_clone_equal", "CifModel.C19_reinit_releases", "CifModel.C19_cex_packet_create_dup",
            "CifModel.C19_cex_clone_alias"]
GEN = ["ErrCodes", "ValueCols"]
FAMILIES = ["val"]
TRUSTED_BASE = [
    "Lean 4.33.0 kernel; axioms propext, Classical.choice, Quot.sound only (audited per theorem on every run)",
    "uthash as an insertion-ordered map (HASH_ADD appends to the application order, HASH_FIND finds the entry of a key, "
    "HASH_DEL removes it) — observed by family val",
    "key normalisation is a parameter of the model (`norm`); the requests carry the normalised forms, computed by Python's "
    "unicodedata for a pool of keys on which it agrees with ICU (checked by the run itself: a disagreement shows as a "
    "different lookup result)",
    "harness/x_val.c, x_gg.h, cifio.h and tools/gen/{val,ggvals}.py (executor, dumper, generator, reference implementation "
    "of the documented contracts used as oracle)",
]
ASSUMPTIONS = [
    "memory safety of the C (no out-of-bounds access, no double free) is observed by running family val under ASan/UBSan; "
    "the heap-level model proves the ownership protocol, not the C code",
]
PARTIAL = []
LEVEL_TEXT = ""
LEVEL_NOTE = ""
TECHNIQUE = "Lean 4 proof (refinement of an association list to an abstract map; induction over operation histories) + differential execution of random operation sequences under ASan"
