PROPERTY = "C19"
LEVEL = "proof"
LEAN_MODULES = ["CifModel.Props.C19", "CifModel.Props.ReviewC19"]
REQUIRED = ["CifModel.C19_list_is_sequence", "CifModel.C19_table_is_map", "CifModel.C19_table_invalid_key",
            "CifModel.C19_table_history", "CifModel.C19_packet_is_map", "CifModel.C19_packet_create", "CifModel.C19_wrong_kind",
            "CifModel.C19_clone_equal", "CifModel.C19_reinit_result_independent", "CifModel.C19_reinit_releases",
            "CifModel.C19_clone_reads_source", "CifModel.C19_put_copies_addr", "CifModel.C19_set_element_addr", "CifModel.C19_map_set_item_addr",
            "CifModel.C19_clone_onto_addr", "CifModel.C19_members_by_reference", "CifModel.C19_packet_create_dup", "CifModel.C19_cex_packet_create_dup_pinned",
            "CifModel.C19_cex_clone_alias_pinned",
            "CifModel.C19_clone_disjoint", "CifModel.C19_put_copies", "CifModel.C19_remove_transfers",
            "CifModel.C19_remove_transfers_entry", "CifModel.C19_reinit_releases_heap", "CifModel.C19_capacity_growth",
            "CifModel.C16_map_heap_safe", "CifModel.C16_map_set_item_heap_safe", "CifModel.C16_map_remove_item_heap_safe",
            "CifModel.C16_cex_F10_pinned", "CifModel.C19_clone_onto_repaired", "CifModel.C19_set_replaces_in_place",
            "CifModel.C16_packet_create_heap_safe", "CifModel.C16_get_keys_heap_safe", "CifModel.C19_clone_onto_heap", "CifModel.C19_reinit_heap"]
GEN = ["ErrCodes", "ValueCols"]
FAMILIES = ["val", "valheap"]
TRUSTED_BASE = [
    "Lean 4.33.0 kernel; axioms propext, Classical.choice, Quot.sound only (audited per theorem on every run)",
    "uthash allocates exactly two blocks (table, bucket array) while a map is non-empty and none otherwise (family valheap "
    "observes it, including tables grown past the bucket expansions: the bucket array is replaced block for block)",
    "uthash as an insertion-ordered map (HASH_ADD appends to the application order, HASH_FIND finds the entry of a key, "
    "HASH_DEL removes it) — observed by family val",
    "key normalisation is a parameter of the model (`norm`); the requests carry the normalised forms, computed by Python's "
    "unicodedata for a pool of keys on which it agrees with ICU (checked by the run itself: a disagreement shows as a "
    "different lookup result)",
    "harness/x_val.c, x_gg.h, cifio.h and tools/gen/{val,ggvals}.py (executor, dumper, generator, reference implementation "
    "of the documented contracts used as oracle)",
]
ASSUMPTIONS = [
    "memory safety of the C (no out-of-bounds access, no double free) is observed by running family val under ASan/UBSan; "
    "the heap-level model proves the ownership protocol, not the C code",
]
PARTIAL = [
    "clone equality and 'containers copy what is put in': the pure-level statements are definitional (clone = id on immutable "
    "trees); the statements with content are at heap level — C19_clone_reads_source (cloneH follows the source's pointers cell by "
    "cell and is proved to yield a disjoint structure representing the same value, source unchanged), C19_put_copies_addr / "
    "C19_set_element_addr / C19_map_set_item_addr / C19_clone_onto_addr (the operations take the ADDRESS of the caller's object). "
    "Limits: (i) set_element_at / map_set_item on an EXISTING member with a source INSIDE the member replaced: the member-level "
    "statement is C19_clone_onto_addr (scratch copy first, any aliasing) for free-standing target objects (.val blocks) only — for "
    "a target that is a list element the re-assembly of the enclosing list's representation, and for a target that is a map "
    "entry's inline value the whole statement, are proved for sources OUTSIDE the container only; the aliased member cases are "
    "carried by the pure theorem C19_clone_onto_repaired and by correspondence (val / valheap flavours alias-inside, "
    "alias-ancestor, self-clone); (ii) mapSetItemAddrH takes the copy after releasing the old value where the C takes it "
    "before: same heap for outside sources (mapSetItemAddrH_eq), the driver uses the C's order when the two could differ",
    "operation HISTORIES: the only run theorem is C19_table_history (flat tables, pure level); for lists, nested paths and at heap "
    "level every theorem is about ONE operation from any represented state (pre/post in terms of Rep, so the statements chain, "
    "but the chaining is not itself a theorem); histories are exercised by families val / valheap (<= 300 operations)",
    "failure paths of the re-initialisers (cif_value_parse_numb / copy_char on invalid input leave the object as it was) are "
    "modelled at pure level only (Model/Numb, C10); reinitH models the successful path",
    "heap level: proved for clone (any depth; onto a fresh and onto an existing object incl. the aliasing cases), release (any "
    "depth, shared key blocks included), list insert with capacity growth / set in place / remove with transfer of ownership, "
    "members handed out by reference (C19_members_by_reference), "
    "cif_map_set_item and cif_map_retrieve_item(do_remove) on whole standalone maps (refinement of the pure mapSet / mapErase), "
    "cif_packet_create over a whole name list incl. the CIF_DUP_ITEMNAME refusal, cif_packet_free, get_keys, entry re-spelling "
    "and detaching, the (re)initialisers (C19_reinit_releases). NOT stated at heap level: convert_to_standalone (unreachable "
    "through the public API), allocation failures (property C17)",
    "the heap model is tied to value.c / map.c / packet.c by family valheap: for every operation of the same random sequences "
    "(a) the change in the number of live blocks reported by the allocation tracker (harness/alloc.h) equals the change the heap "
    "model predicts (model cells + 2 blocks per non-empty uthash map), (b) a walk of the real structures from the slots reaches "
    "every live block exactly once (ownership: no orphan, no block owned twice), (c) the CONTENTS of all string blocks (texts, "
    "digit strings, su digit strings, normalised keys, original spellings) equal, as a multiset (count + sum of FNV-1a hashes), "
    "the contents of the model's str cells, and everything is released at the end; tables grown past uthash's bucket "
    "expansions (330-900 entries) are part of the stream. Not compared: addresses, the order of allocation, the scalar "
    "fields of the structs (kind, quoted, sign, scale, size, capacity: these are compared through the API by family val)",
]
LEVEL_TEXT = ("Proof about an executable Lean model at two levels. Pure level: list operations are the sequence operations with exactly "
              "the documented CIF_INVALID_INDEX conditions; table and packet operations refine an abstract map keyed by the normalised "
              "key (any history, key enumeration in insertion order with the latest spelling); wrong-kind calls. "
              "Heap level (explicit addresses, malloc/free, ownership predicate): the clone READS its source cell by cell (cloneH) and "
              "yields, for a value of any depth, a structure on fresh blocks that represents the same value, source untouched, "
              "clone+release restores the heap; insert / set / map set take the address of the caller's object; members are handed "
              "out by reference and writing through the pointer is writing the container; re-initialisers release exactly the old "
              "footprint; releasing a value frees exactly its footprint, each block "
              "once; insert copies; remove transfers ownership; the key/key_orig aliasing protocol of map entries (F10). Tied to the C "
              "by family val: random operation sequences on the real library under ASan/UBSan, compared step by step with the pure "
              "model and, independently, with a Python transcription of the documented contracts; and by family valheap: the same "
              "sequences with the allocation tracker on, the per-operation change in live heap blocks, the ownership of every live block and the contents of "
              "all string blocks compared with the heap model run on the sequence (the model's clone is cloneH, reading the source).")
LEVEL_NOTE = ("Pure level proved in full. Heap level proved for every value / list / map / packet operation except the unreachable "
              "convert_to_standalone and allocation failures (C17). The two defects this property found (F35 source inside the clone "
              "target / self-clone, F36 duplicate names in cif_packet_create) are repaired in the sources (f1b092b, c571e89); the "
              "model follows the repaired code, the pinned behaviour is kept as counterexample theorems (C19_cex_*_pinned). No open finding.")
TECHNIQUE = "Lean 4 proof (refinement of an association list to an abstract map; induction over operation histories) + differential execution of random operation sequences under ASan"
