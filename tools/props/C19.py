PROPERTY = "C19"
LEVEL = "proof"
LEAN_MODULES = ["CifModel.Props.C19", "CifModel.Props.ReviewC19"]
REQUIRED = ["CifModel.C19_list_is_sequence", "CifModel.C19_table_is_map", "CifModel.C19_table_invalid_key",
            "CifModel.C19_table_history", "CifModel.C19_packet_is_map", "CifModel.C19_packet_create", "CifModel.C19_wrong_kind",
            "CifModel.C19_clone_equal", "CifModel.C19_reinit_releases", "CifModel.C19_packet_create_dup", "CifModel.C19_cex_packet_create_dup_pinned",
            "CifModel.C19_cex_clone_alias_pinned",
            "CifModel.C19_clone_disjoint", "CifModel.C19_put_copies", "CifModel.C19_remove_transfers",
            "CifModel.C19_remove_transfers_entry", "CifModel.C19_reinit_releases_heap", "CifModel.C19_capacity_growth",
            "CifModel.C16_map_heap_safe", "CifModel.C16_map_set_item_heap_safe", "CifModel.C16_map_remove_item_heap_safe",
            "CifModel.C16_cex_F10_pinned", "CifModel.C19_clone_onto_repaired", "CifModel.C19_set_replaces_in_place",
            "CifModel.C16_packet_create_heap_safe", "CifModel.C16_get_keys_heap_safe", "CifModel.C19_clone_onto_heap", "CifModel.C19_reinit_heap"]
GEN = ["ErrCodes", "ValueCols"]
FAMILIES = ["val", "valheap"]
TRUSTED_BASE = [
    "Lean 4.33.0 kernel; axioms propext, Classical.choice, Quot.sound only (audited per theorem on every run)",
    "uthash allocates exactly two blocks (table, bucket array) while a map is non-empty and none otherwise (family valheap "
    "observes it; bucket expansion above 320 entries is not reached)",
    "uthash as an insertion-ordered map (HASH_ADD appends to the application order, HASH_FIND finds the entry of a key, "
    "HASH_DEL removes it) — observed by family val",
    "key normalisation is a parameter of the model (`norm`); the requests carry the normalised forms, computed by Python's "
    "unicodedata for a pool of keys on which it agrees with ICU (checked by the run itself: a disagreement shows as a "
    "different lookup result)",
    "harness/x_val.c, x_gg.h, cifio.h and tools/gen/{val,ggvals}.py (executor, dumper, generator, reference implementation "
    "of the documented contracts used as oracle)",
]
ASSUMPTIONS = [
    "memory safety of the C (no out-of-bounds access, no double free) is observed by running family val under ASan/UBSan; "
    "the heap-level model proves the ownership protocol, not the C code",
]
PARTIAL = [
    "heap level: proved for clone (any depth; onto a fresh and onto an existing object incl. the aliasing cases), release (any "
    "depth, shared key blocks included), list insert with capacity growth / set in place / remove with transfer of ownership, "
    "cif_map_set_item and cif_map_retrieve_item(do_remove) on whole standalone maps (refinement of the pure mapSet / mapErase), "
    "cif_packet_create over a whole name list incl. the CIF_DUP_ITEMNAME refusal, cif_packet_free, get_keys, entry re-spelling "
    "and detaching. the (re)initialisers (reinitH). NOT stated at heap level: convert_to_standalone (unreachable through the public API), allocation "
    "failures (property C17)",
    "the heap model is tied to value.c / map.c / packet.c by family valheap: for every operation of the same random sequences "
    "(a) the change in the number of live blocks reported by the allocation tracker (harness/alloc.h) equals the change the heap "
    "model predicts (model cells + 2 blocks per non-empty uthash map), (b) a walk of the real structures from the slots reaches "
    "every live block exactly once (ownership: no orphan, no block owned twice), (c) the CONTENTS of all string blocks (texts, "
    "digit strings, su digit strings, normalised keys, original spellings) equal, as a multiset (count + sum of FNV-1a hashes), "
    "the contents of the model's str cells, and everything is released at the end; tables grown past uthash's bucket "
    "expansions (330-900 entries) are part of the stream. Not compared: addresses, the order of allocation, the scalar "
    "fields of the structs (kind, quoted, sign, scale, size, capacity: these are compared through the API by family val)",
]
LEVEL_TEXT = ("Proof about an executable Lean model at two levels. Pure level: list operations are the sequence operations with exactly "
              "the documented CIF_INVALID_INDEX conditions; table and packet operations refine an abstract map keyed by the normalised "
              "key (any history, key enumeration in insertion order with the latest spelling); wrong-kind calls; clone equality; "
              "re-initialisers. Heap level (explicit addresses, malloc/free, ownership predicate): a clone of a value of any depth "
              "lives on fresh blocks and clone+release restores the heap; releasing a value frees exactly its footprint, each block "
              "once; insert copies; remove transfers ownership; the key/key_orig aliasing protocol of map entries (F10). Tied to the C "
              "by family val: random operation sequences on the real library under ASan/UBSan, compared step by step with the pure "
              "model and, independently, with a Python transcription of the documented contracts; and by family valheap: the same "
              "sequences with the allocation tracker on, the per-operation change in live heap blocks compared with the heap "
              "model run on the sequence.")
LEVEL_NOTE = ("Pure level proved in full. Heap level proved for every value / list / map / packet operation except the unreachable "
              "convert_to_standalone and allocation failures (C17). The two defects this property found (F35 source inside the clone "
              "target / self-clone, F36 duplicate names in cif_packet_create) are repaired in the sources (f1b092b, c571e89); the "
              "model follows the repaired code, the pinned behaviour is kept as counterexample theorems (C19_cex_*_pinned). No open finding.")
TECHNIQUE = "Lean 4 proof (refinement of an association list to an abstract map; induction over operation histories) + differential execution of random operation sequences under ASan"
