PROPERTY = "C17"
LEVEL = "proof"
LEAN_MODULES = ["CifModel.Props.C17", "CifModel.Props.C17Map", "CifModel.Props.C17Store", "CifModel.Props.ReviewC17"]
REQUIRED = ["CifModel.C17_dup_ustrings_balanced", "CifModel.C17_clone_balanced", "CifModel.C17_insert_balanced",
            "CifModel.C17_fault_reached_iff", "CifModel.C17_set_element_balanced", "CifModel.C17_get_names_balanced",
            "CifModel.C17_cex_get_names_leak", "CifModel.C17_clone_shape", "CifModel.C17_balanced_nodup",
            "CifModel.C17_copy_char_balanced", "CifModel.C17_packet_create_balanced",
            "CifModel.C17_cex_packet_create_undefined", "CifModel.C17_deserialize_balanced",
            "CifModel.C17_map_set_balanced", "CifModel.C17_cex_map_set_corrupt", "CifModel.C17_map_remove_balanced",
            "CifModel.C17_clone_table_balanced", "CifModel.C17_cex_clone_table_corrupt", "CifModel.C17_map_fault_reached_iff",
            "CifModel.C17_atomic_under_fault", "CifModel.C17_abs_unchanged", "CifModel.C17_close_fault_is_abort",
            "CifModel.C17_fault_modelled", "CifModel.C17_fault_path_independent"]
GEN = ["ErrCodes", "Schema", "Uthash"]
FAMILIES = ["ladder", "oom", "storefault"]
TRUSTED_BASE = [
    "Lean 4.33.0 kernel; axioms propext / Quot.sound / Classical.choice only",
    "Model/Ladder.lean: hand transcription of the allocation/clean-up control flow of dup_ustrings, cif_value_clone (scalar, "
    "char, number, nested list), cif_value_insert_element_at, cif_value_set_element_at, cif_loop_get_names, cif_value_copy_char, cif_packet_create "
    "(ASCII names, below uthash's first bucket expansion) and cif_value_deserialize of list blobs; tied to the real code by family `ladder` (event pattern "
    "recorded by the allocation wrappers of harness/alloc.h for every fault position of every generated shape)",
    "harness/alloc.h (--wrap of malloc/calloc/realloc/strdup/free in the executor, SQLite allocator via "
    "SQLITE_CONFIG_MALLOC, ICU allocator via u_setMemoryFunctions), harness/x_oom.c scenarios, tools/gen/oom.py oracle",
    "gcc ASan/UBSan as the detector of memory errors in the real code",
    "Model/StoreFault.lean: the documented failure paths of the store functions (failure before the transaction statement returns at once; a failure inside runs the "
    "function's ROLLBACK / ROLLBACK_NESTTX / ROLLBACK_TO); per-function macro uses tied to the sources by C05_paths_link; "
    "harness/x_storefault.c + tools/gen/storefault.py (API histories with 1-4 faulted calls, each repeated)",
]
ASSUMPTIONS = [
    "SQLite undoes a failing statement (statement-level atomicity) and ROLLBACK / ROLLBACK TO succeed after an allocation failure "
    "(C17_atomic_under_fault; the real SQLite deviates inside iterator transactions - open findings F31s-*)",
    "one allocation failure per call; allocations made inside libc/ICU/SQLite on their own behalf are failed only through "
    "their allocator hooks (classes sq, icu), not individually wrapped",
    "the runtime part of C17 (crash-freedom, unchanged managed CIF, successful retry at every allocation site of ~65 API "
    "operations) is observed by exhaustive fault enumeration on fixed representative scenarios, not proved",
]
PARTIAL = [
    "store functions: C17_atomic_under_fault — every world with the invariant, every op that works on a CIF, every fault position, and ANY "
    "state `mid` the statements executed before the failure may have left the database in: error code, handle tables untouched, every CIF "
    "unchanged (proved from the transaction semantics: the failure handler's ROLLBACK / ROLLBACK_NESTTX / ROLLBACK_TO restores the snapshot taken "
    "by BEGIN / BEGIN_NESTTX / SAVE — failPath_same), the repeated call gives the fault-free result. The statements before the failure are NOT "
    "executed by the model: their effect is universally quantified (`mid`); that a function's failure handler is the one of its TxClass "
    "(Model/StoreFault txClass) is tied to the sources only through the per-function macro uses of C05_paths_link",
    "C17_atomic_under_fault is trivially true (left disjunct: the op runs without fault) for the ops that `target` does not model — cif_create, "
    "cif_destroy, cif_pktitr_close / cif_pktitr_abort (C17_close_fault_is_abort states the COMMIT failure of close), the calls that only read "
    "the handle (get_code, is-block, loop_get_category), container_destroy / loop_destroy while the harness refuses them (iterator on the "
    "handle), and every op on a dead handle; for every other (op, k within the op's layout) the call fails: C17_fault_modelled",
    "one-statement functions (container_destroy, loop_destroy, prune, set_category, the queries): SQLite's statement-level atomicity is ASSUMED "
    "(TxClass.stmt: the store is returned as it was)",
    "theorems cover the clean-up ladders of dup_ustrings / cif_value_clone (without tables) / cif_value_insert_element_at / "
    "cif_value_set_element_at / cif_loop_get_names (normalize = 0) for "
    "every size, nesting and fault position; every other allocation site is covered by the fault-enumeration run only",
    "77 classes of genuine allocation-failure defects of the pinned library are recorded as open findings "
    "(known_findings.d/C17.json), most of them rooted in uthash's out-of-memory handling and in statements/transactions left "
    "open on SQLite allocation failure",
]
LEVEL_TEXT = ("Partial proof + exhaustive fault enumeration. Lean theorems: for every number of strings / every value shape "
              "(any nesting, any width) and EVERY position of the single failing allocation, the modelled clean-up ladders "
              "release each block exactly once, leak nothing on failure and return an error; the model is tied to the real "
              "functions by comparing allocation/release patterns for every fault position. All other allocation sites "
              "(library, SQLite and ICU allocators) of ~65 public API operations are failed one at a time on the real code "
              "under ASan/UBSan with exact leak accounting.")
LEVEL_NOTE = ("The theorem is about the ladder model; memory safety of the C itself is observed at run time only. "
              "Known genuine defects are listed individually (keyed by operation / allocator class / failing allocation's "
              "function / consequence) so that any new failure is still reported.")
TECHNIQUE = "Lean 4 induction over value shapes and fault positions (clean-up ladder model), Lean 4 proof on a transactional store model with fault steps + exhaustive single-fault injection and fault-injected API histories"
