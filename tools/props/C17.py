PROPERTY = "C17"
LEVEL = "proof"
LEAN_MODULES = ["CifModel.Props.C17", "CifModel.Props.C17Map", "CifModel.Props.C17Store", "CifModel.Props.ReviewC17",
                "CifModel.Props.C17Tree", "CifModel.Props.C17Iter", "CifModel.Props.C17Header"]
REQUIRED = ["CifModel.C17_dup_ustrings_balanced", "CifModel.C17_clone_balanced", "CifModel.C17_insert_balanced",
            "CifModel.C17_fault_reached_iff", "CifModel.C17_set_element_balanced", "CifModel.C17_get_names_balanced",
            "CifModel.C17_cex_get_names_leak", "CifModel.C17_clone_shape", "CifModel.C17_balanced_nodup",
            "CifModel.C17_copy_char_balanced", "CifModel.C17_packet_create_balanced",
            "CifModel.C17_cex_packet_create_undefined", "CifModel.C17_deserialize_balanced",
            "CifModel.C17_map_set_balanced", "CifModel.C17_cex_map_set_corrupt", "CifModel.C17_map_remove_balanced",
            "CifModel.C17_clone_table_balanced", "CifModel.C17_cex_clone_table_corrupt", "CifModel.C17_map_fault_reached_iff",
            "CifModel.C17_ladder_reentry", "CifModel.C17_deserialize_table_balanced", "CifModel.C17_get_names_norm_balanced",
            "CifModel.C17_atomic_under_fault", "CifModel.C17_abs_unchanged", "CifModel.C17_close_fault_is_abort",
            "CifModel.C17_fault_modelled", "CifModel.C17_fault_path_independent",
            "CifModel.C17_clone_any_balanced", "CifModel.C17_deser_any_balanced", "CifModel.C17_free_any_balanced",
            "CifModel.C17_clone_any_extends", "CifModel.C17_get_packets_balanced", "CifModel.C17_next_packet_balanced",
            "CifModel.C17_loop_header_balanced", "CifModel.C17_get_all_loops_balanced"]
GEN = ["ErrCodes", "Schema", "Uthash"]
FAMILIES = ["ladder", "oom", "storefault"]
TRUSTED_BASE = [
    "Lean 4.33.0 kernel; axioms propext / Quot.sound / Classical.choice only",
    "Model/LadderTree.lean (clone / deserialise / free of arbitrary value trees), Model/LadderIter.lean (cif_loop_get_packets, cif_pktitr_next_packet), "
    "Model/LadderHeader.lean (parse_loop_header + list release, cif_container_get_all_loops): hand transcriptions tied by family `ladder` "
    "subcommands vclone, vdeser, getpackets, nextpacket, loophdr, allloops",
    "Model/Ladder.lean: hand transcription of the allocation/clean-up control flow of dup_ustrings, cif_value_clone (scalar, "
    "char, number, nested list), cif_value_insert_element_at, cif_value_set_element_at, cif_loop_get_names, cif_value_copy_char, cif_packet_create "
    "(ASCII names, below uthash's first bucket expansion) and cif_value_deserialize of list blobs; Model/LadderMap.lean: cif_map_set_item, "
    "cif_map_retrieve_item with removal, cif_value_clone_table with uthash's bookkeeping (HASH_JEN, thresholds: Gen/Uthash.lean, "
    "regenerated from uthash.h; tools/translate_uthash.py fails when a transcribed macro fragment changes); tied to the real code by family `ladder` (event pattern "
    "recorded by the allocation wrappers of harness/alloc.h for every fault position of every generated shape)",
    "harness/alloc.h (--wrap of malloc/calloc/realloc/strdup/free in the executor, SQLite allocator via "
    "SQLITE_CONFIG_MALLOC, ICU allocator via u_setMemoryFunctions), harness/x_oom.c scenarios, tools/gen/oom.py oracle",
    "gcc ASan/UBSan as the detector of memory errors in the real code",
    "Model/StoreFault.lean: the documented failure paths of the store functions (failure before the transaction statement returns at once; a failure inside runs the "
    "function's ROLLBACK / ROLLBACK_NESTTX / ROLLBACK_TO); per-function macro uses tied to the sources by C05_paths_link; "
    "harness/x_storefault.c + tools/gen/storefault.py (API histories with 1-4 faulted calls, each repeated)",
]
ASSUMPTIONS = [
    "SQLite undoes a failing statement (statement-level atomicity) and ROLLBACK / ROLLBACK TO succeed after an allocation failure "
    "(C17_atomic_under_fault; the real SQLite deviates inside iterator transactions - open findings F31s-*)",
    "one allocation failure per call; allocations made inside libc/ICU/SQLite on their own behalf are failed only through "
    "their allocator hooks (classes sq, icu), not individually wrapped",
    "the runtime part of C17 (crash-freedom, unchanged managed CIF, successful retry at every allocation site of ~65 API "
    "operations) is observed by exhaustive fault enumeration on fixed representative scenarios, not proved",
]
PARTIAL = [
    "store functions: C17_atomic_under_fault — every world with the invariant, every op that works on a CIF, every fault position, and ANY "
    "state `mid` the statements executed before the failure may have left the database in: error code, handle tables untouched, every CIF "
    "unchanged (proved from the transaction semantics: the failure handler's ROLLBACK / ROLLBACK_NESTTX / ROLLBACK_TO restores the snapshot taken "
    "by BEGIN / BEGIN_NESTTX / SAVE — failPath_same), the repeated call gives the fault-free result. The statements before the failure are NOT "
    "executed by the model: their effect is universally quantified (`mid`); that a function's failure handler is the one of its TxClass "
    "(Model/StoreFault txClass) is tied to the sources only through the per-function macro uses of C05_paths_link",
    "C17_atomic_under_fault is trivially true (left disjunct: the op runs without fault) for the ops that `target` does not model — cif_create, "
    "cif_destroy, cif_pktitr_close / cif_pktitr_abort (C17_close_fault_is_abort states the COMMIT failure of close), the calls that only read "
    "the handle (get_code, is-block, loop_get_category), container_destroy / loop_destroy while the harness refuses them (iterator on the "
    "handle), and every op on a dead handle; for every other (op, k within the op's layout) the call fails: C17_fault_modelled",
    "one-statement functions (container_destroy, loop_destroy, prune, set_category, the queries): SQLite's statement-level atomicity is ASSUMED "
    "(TxClass.stmt: the store is returned as it was)",
    "ladder theorems (Props/C17.lean, Props/C17Map.lean), every size / shape / key set / fault position. The `*_balanced` theorems are "
    "about the model variant that family `ladder` compares with the CURRENT sources (/repo 3148ec3): dup_ustrings, cif_value_clone "
    "(scalars, text, numbers, nested lists; tables at the top: C17_clone_table_balanced; any nesting: C17_clone_any_balanced), cif_value_insert_element_at, "
    "cif_value_set_element_at (after f1b092b), cif_value_copy_char, cif_loop_get_names without normalisation (after 0850ab1), "
    "cif_loop_get_names_internal with normalisation (ASCII names; after c161ded), "
    "cif_packet_create for ASCII names below uthash's first bucket expansion (after 07fe35a), cif_value_deserialize of list blobs "
    "(numbers included, after fe019d6) and of table blobs with table-free entry values (after 7285a53 / 2b403f6), cif_map_set_item = cif_value_set_item_by_key / cif_packet_set_item and cif_value_clone_table with "
    "uthash's table, bucket-array and expansion requests (after 7285a53), cif_map_retrieve_item with removal. Four of them "
    "(C17_get_names_balanced, C17_packet_create_balanced, C17_map_set_balanced, C17_clone_table_balanced) are stated for the "
    "`fixed = true` variant of a two-variant model: that variant was written as the PROPOSED repair and has been the code since the "
    "commits named; the `fixed = false` variants describe the library before them",
    "the `C17_cex_*` theorems characterise PINNED behaviour that has been repaired, exactly (which fault positions, which blocks): "
    "C17_cex_get_names_leak (list node lost when a name string cannot be allocated; repaired by 0850ab1), "
    "C17_cex_packet_create_undefined (NULL table dereference when uthash's table header for the first entry cannot be allocated; 07fe35a), "
    "C17_cex_map_set_corrupt and C17_cex_clone_table_corrupt (entry released while uthash has it linked, cloned value and table header "
    "lost; 7285a53). They are kept as regression statements; family `ladder` still runs the pinned variants on request "
    "(`namespinned`, `packetpinned`, `mapsetpinned`, `tclonepinned`) but no generated request uses them",
    "in the map ladders `corrupt` and `leaked` are labels the MODEL assigns on the pinned uthash_fatal path; what is independent of the "
    "model is `Balanced` (Spec/HeapTrace.lean) over the event sequence; 'the caller's objects stay valid' is otherwise carried by the "
    "correspondence runs (the executors keep using and then release every object after the faulted call, under ASan)",
    "re-entry after a faulted ladder call: the conclusions `Balanced st.evs (…)` and 'no live id beyond the request counter' of the "
    "from-any-state theorems (set_element_at, copy_char, map set / remove) are exactly their own hypotheses for the resulting map / "
    "value, so a further call (with its own single fault) may follow - C17_ladder_reentry proves it for every sequence of "
    "cif_map_set_item / removal calls on one map, each with its own fault position; the ladders that start from the empty window (dup, clone, insert, packet_create, deserialize, "
    "get_names, clone of a table) create their result and have nothing to re-enter. There is no theorem about two faults inside ONE call",
    "arbitrarily nested values (Props/C17Tree.lean, Model/LadderTree.lean): C17_clone_any_balanced and C17_deser_any_balanced hold for EVERY "
    "value tree (tables inside lists inside tables ..., each table with its own uthash bookkeeping incl. bucket expansions), every fault "
    "position and from any start state: Balanced, failure IFF the fault position is one of the call's own requests (the request count is a "
    "function of the shape alone and is proved to be the fault-free run's count), nothing of a partial copy stays live, no block that existed "
    "before the call (the source) is released; C17_free_any_balanced: cif_value_free of a well-formed tree. The older table-free theorems "
    "(C17_clone_balanced, C17_deserialize_balanced, C17_clone_table_balanced, C17_deserialize_table_balanced) are kept; insert / set_element / "
    "map set still use the table-free `Shape` for the value they clone",
    "packet iterator (Props/C17Iter.lean): C17_get_packets_balanced (iterator object, normalised names, uthash name set; after fe1bb36) and "
    "C17_next_packet_balanced (cif_packet_create_norm with key copies, GET_VALUE_PROPS per item incl. blobs of any nesting, packet handed over "
    "or dropped; after afb74d5 / 3148ec3) for every name list / item list / fault position. NOT modelled: cif_pktitr_next_packet's third "
    "branch (values moved into a packet the caller supplied), SQLite's own allocations, the order of the releases inside the handlers for "
    "the entry that was being added (the observation is order-insensitive); the iterator's name order is SQLite's, so the correspondence "
    "runs use name sets whose uthash behaviour is order-independent (<= 9 names, or exactly 10 of one bucket)",
    "parser (Props/C17Header.lean): C17_loop_header_balanced - parse_loop_header for a syntax-only parse (container == NULL) of n distinct "
    "ASCII names and a refused repetition of the first, with parse_loop's release of the name list, every n and fault position. NOT covered: "
    "the loop creation (cif_container_create_loop), cif_container_get_item_loop's duplicate check with a container, the loop body "
    "(parse_loop_packets). C17_get_all_loops_balanced: cif_container_get_all_loops (library requests only)",
    "census (family oom, histogram labels lib:<operation>:<proved|leaf|observed>; table: tools/dev/oom_census.py --coverage): of the "
    "library-class fault sites of the ~65 operations, those inside a function with a proved ladder (tools/gen/oom.py LADDER_FUNCS), those in "
    "leaf helpers that make one request and have no clean-up of their own (cif_u_strdup, cif_value_create, cif_buf_create) and those that "
    "only the enumeration executes. 'proved' means the FUNCTION containing the request has a ladder theorem (for ASCII names / the modelled "
    "paths), not that the whole operation is proved",
    "not covered by a ladder theorem (fault-enumeration run only): non-ASCII names (whose normalisation may re-allocate), "
    "cif_pktitr_next_packet into a caller-supplied packet, parse_loop_packets / parse_value / parse_container, cif_container_create_loop, "
    "cif_container_get_all_frames, cif_get_all_blocks, cif_value_get_text / try_quoted / serialisation buffers, every other allocation site",
    "all 64 classes of allocation-failure defects found by the exhaustive census have been repaired in /repo (18 fix: commits, "
    "notes/agents/gK.md); known_findings.d/C17.json is empty, their example requests are regression lines in corpus/oom/closed.req",
]
LEVEL_TEXT = ("Partial proof + exhaustive fault enumeration. Lean theorems: for every number of strings / every value shape "
              "(any nesting of lists AND tables, any width) and EVERY position of the single failing allocation, the modelled clean-up ladders "
              "(values, maps, packets, the packet iterator, the parser's loop header, get_all_loops) "
              "release each block exactly once, leak nothing on failure and return an error; the model is tied to the real "
              "functions by comparing allocation/release patterns for every fault position. All other allocation sites "
              "(library, SQLite and ICU allocators) of ~65 public API operations are failed one at a time on the real code "
              "under ASan/UBSan with exact leak accounting.")
LEVEL_NOTE = ("The theorems are about the ladder and store models; memory safety of the C itself is observed at run time only. "
              "No allocation-failure defect is open; a new failure class is a VIOLATION (nothing is masked: known_findings.d/C17.json "
              "has no entry).")
TECHNIQUE = "Lean 4 induction over value shapes and fault positions (clean-up ladder model), Lean 4 proof on a transactional store model with fault steps + exhaustive single-fault injection and fault-injected API histories"

# ---- independent review rA (notes/review/rA-review.md): instances that apply the new ladder theorems to concrete traces ----
LEAN_MODULES += ["CifModel.Props.ReviewRC17"]
PARTIAL += [
    "review rA: the SUCCESS outcomes of the `*_balanced` ladder theorems (a well-formed result tree) are not stated in the form that "
    "C17_free_any_balanced takes as its hypothesis, so 'create under a fault-free run, then release' is not a chained theorem (the "
    "heap-level chain of C19_history_heap / C19_history_release covers it without faults)",
]
