PROPERTY = "C04"
LEVEL = "proof"
LEAN_MODULES = ["CifModel.Props.C04", "CifModel.Model.StoreSchema", "CifModel.Model.StoreContract", "CifModel.Props.ReviewC04", "CifModel.Props.ReviewRC04",
                "CifModel.Spec.StoreSpec", "CifModel.Lemmas.StoreSpecWorld", "CifModel.Lemmas.StoreSpecSetValue", "CifModel.Lemmas.StoreSpecProps"]
REQUIRED = ["CifModel.C04_inv_init", "CifModel.C04_inv_sql", "CifModel.C04_inv_step", "CifModel.C04_inv_reachable",
            "CifModel.C04_inv_gives_loop_keys", "CifModel.names_returned_as_created", "CifModel.set_value_all_packets_or_new_scalar",
            "CifModel.remove_last_item_removes_loop", "CifModel.scalar_category_cannot_be_given",
            "CifModel.scalar_category_cannot_be_taken", "CifModel.destroy_removes_subtree_only", "CifModel.cifs_independent", "CifModel.names_returned_as_created_frame",
            "CifModel.names_returned_as_created_items", "CifModel.set_value_new_item_goes_to_scalar", "CifModel.C04_refines_get_block",
            "CifModel.C04_refines_create_block", "CifModel.C04_refines_all_blocks", "CifModel.C04_refines_get_frame", "CifModel.C04_refines_create_loop", "CifModel.C04_refines_add_packet", "CifModel.C04_add_packet_total", "CifModel.C04_refines_get_value", "CifModel.C04_refines_set_value", "CifModel.C04_refines_remove_item", "CifModel.C04_refines_destroy_loop", "CifModel.C04_refines_set_category", "CifModel.C04_refines_set_value_new", "CifModel.C04_refines_add_item", "CifModel.C04_refines_prune", "CifModel.C04_get_value_column", "CifModel.C04_add_packet_is_spec_packet",
            "CifModel.C04_cex_F30_pinned", "CifModel.C04_cex_F34_pinned",
            "CifModel.C04_wok_init", "CifModel.C04_wok_step", "CifModel.C04_wok_hist", "CifModel.C04_packets_total", "CifModel.C04_rows_below", "CifModel.C04_iterator_tied", "CifModel.C04_quiet", "CifModel.C04_add_packet_in_contract", "CifModel.C04_set_category_in_contract", "CifModel.C04_get_value_in_wok", "CifModel.C04_remove_item_in_wok", "CifModel.C04_refines", "CifModel.C04_refines_hist", "CifModel.C04_refines_from_start", "CifModel.C04_set_value_in_contract",
            "CifModel.C04_set_value_existing", "CifModel.C04_set_value_cells", "CifModel.C04_set_value_creates_scalar_loop", "CifModel.C04_set_value_joins_scalar_loop",
            "CifModel.C04_set_value_invalid_name", "CifModel.C04_abs_loop_keys", "CifModel.C04_abs_fresh_loop_num", "CifModel.C04_hist_names_returned_as_created",
            "CifModel.Store.specStep_refines", "CifModel.Store.setValue_spec", "CifModel.Store.absS_tree", "CifModel.C04_second_get_packets_refused", "CifModel.C04_handle_outside_cif", "CifModel.C04_loop_handle_outside_cif", "CifModel.remove_last_item_sql",
            "CifModel.C04_code_set_category", "CifModel.C04_code_add_packet", "CifModel.C04_code_remove_item",
            "CifModel.C04_abs_fuel_suffices", "CifModel.C04_refines_create_frame", "CifModel.C04_create_frame_elsewhere", "CifModel.C04_refines_destroy_container",
            "CifModel.Store.schema_tables_link", "CifModel.Store.schema_triggers_link", "CifModel.Store.schema_sql_link",
            "CifModel.Store.schema_messages_link", "CifModel.Store.C05_paths_link"]
GEN = ["ErrCodes", "Schema"]
FAMILIES = ["store"]
TRUSTED_BASE = [
    "Lean 4.33.0 kernel; axioms propext, Quot.sound, Classical.choice only (audited per theorem)",
    "tools/translate_schema.py: extraction of tables/keys/cascades/CHECKs/triggers from schema.h (= cif_schema.sql), the SQL of sql.h, "
    "the compared message strings and the transaction-macro uses per function (all re-checked by `decide` link theorems in Model/StoreSchema.lean)",
    "SQLite as a relational store that enforces exactly these schema facts, with BEGIN/COMMIT/ROLLBACK/SAVEPOINT restoring snapshots "
    "(assumed; observed by the correspondence run incl. sqlite3_get_autocommit)",
    "harness/x_store.c (executor, canonical dumps via the public query API; raw SQL dump while a transaction is open), harness/cifio.h, "
    "tools/gen/store.py (generator, oracle), lean/Driver/Fam/Store.lean (request parsing, printing)",
    "name normalisation is a parameter: requests carry (normalised key, original spelling, validity) computed by Python's unicodedata "
    "on a pool where it agrees with ICU (property C09's subject)",
]
ASSUMPTIONS = [
    "values stored satisfy the CHECK constraints of item_value (property C07's subject); the model stores value objects opaquely",
    "the store's enumeration orders are not fixed by any property: observations are canonical (sorted) dumps",
]
PARTIAL = [
    "Headline: C04_refines / C04_refines_hist / C04_refines_from_start — for EVERY op (all 31; the `covered` hypothesis and `Op.covered` itself are "
    "gone) of an in-contract history (inContract: valid handles, no other work on a CIF while an iterator is open on it, packets "
    "with distinct keys) started in a world satisfying WOk (C04_wok_init / C04_wok_step: Inv, PacketsTotal, RowsBelowAll, ScalarCount, iterators "
    "tied, one iterator per CIF, autocommit outside iterators), the API FUNCTION as `step` runs it does to the documented model with object "
    "identities (absW, Spec/StoreSpec: every CIF as container tree + loops of (category, items, packets); every open iterator as the abstract "
    "iterator AIter = loop, packets passed, has-current-packet, CIF at creation) exactly what specStep says and returns the same result. "
    "Newly covered: cif_container_set_value (setValue_spec: existing item = the value in every packet of its loop; new item = joins the scalar "
    "loop, created when absent, which gets its one packet when it has none; invalid / NULL name; NULL value; failure restores the CIF) and "
    "cif_loop_get_packets (granted, CIF_EMPTY_LOOP, CIF_INVALID_HANDLE, and the refused second one on a busy CIF), next_packet, update_packet, "
    "remove_packet, close, abort (composed from the C06 commutation lemmas of Lemmas/StoreIterSpec)",
    "specSetValue is WRITTEN as the composition the documentation names (find the item's loop as cif_container_get_item_loop does; else find or "
    "create the scalar loop, add the item as cif_loop_add_item does, add a packet as cif_loop_add_packet does when the loop has none); its "
    "closed forms are PROVED on the documented model: C04_set_value_existing (+ C04_set_value_cells), C04_set_value_creates_scalar_loop "
    "(exactly one new loop with exactly one packet), C04_set_value_joins_scalar_loop (exactly one new packet when the scalar loop had none), "
    "C04_set_value_invalid_name; the last two closed forms take two facts about the documented state as hypotheses (a loop is determined by "
    "(container, number); the loop number handed out next is unused) — C04_abs_loop_keys / C04_abs_fresh_loop_num prove both for absS of every "
    "store satisfying Inv",
    "DESTROY (review rA, A.9): cif.h says cif_container_destroy 'removes the associated container and all its contents'. In the store only the "
    "destroyed container's row and the save_frame rows below it cascade; the container rows of NESTED frames, their loops, items and values stay "
    "behind as garbage no query reaches (the real library does the same: corpus/store/histories.req 'a handle on the inner frame outlives it', "
    "model = library, so this is not a model defect). Since this review a handle is in contract only if its container is PART OF THE CIF "
    "(Model/StoreContract Db.inCif: the row exists and climbs through save_frame rows with existing parents to a data block; CH.okB / LH.okB): "
    "every call through a handle on anything inside a destroyed container is OUT of contract (cif.h: undefined), so C04_refines no longer "
    "asserts reads / writes with CIF_OK inside a destroyed block (C04_handle_outside_cif, C04_loop_handle_outside_cif; Props/ReviewRC04 `orphan`: out of contract from the first such call). NOT "
    "done: the state-level documented model (AState, absS, specDestroyContainer) still KEEPS the unreachable rows after a destroy; 'removes "
    "everything inside it' is carried by the tree view only (AState.tree = abs by absS_tree, C04_refines_destroy_container for the cut), not by "
    "the AState. Pruning absS to the part inside the CIF needs every one of the 31 spec functions to commute with the restriction "
    "(not proved)",
    "closed forms of specSetValue: C04_set_value_existing and C04_set_value_invalid_name are unfoldings of match arms of the definition, "
    "C04_set_value_cells is a lemma about List.zip / map (the body of ALoop.setColumn; it mentions no model or spec constant): they make the "
    "spec readable and say nothing about the code — the carrier is C04_refines / setValue_spec; only C04_set_value_creates_scalar_loop and "
    "C04_set_value_joins_scalar_loop are real (composition => closed form)",
    "the theorems named C04_refines_<op> / C04_code_<op> are statements about single SQL statements or the transaction BODIES of the functions "
    "(addPacketBody, createLoopBody, Db.setAllValues, …), NOT about the API functions: they are the lemmas C04_refines is composed from and are "
    "superseded by it; remove_last_item_removes_loop is about cif_container_remove_item itself (the SQL-level fact is remove_last_item_sql); "
    "C04_hist_names_returned_as_created is about the history ops (create_block then get_code)",
    "the contract is stricter than cif.h: any non-iterator call on a CIF with an open iterator is out of contract (cif.h only makes access "
    "to the iterated loop undefined and other modifications 'sensitive to the iterator'), except a further get_packets, which is in contract and "
    "refused (C04_second_get_packets_refused; specItOpenRefused); handles are valid by STATE (their row exists, cached category current) — the two "
    "histories in Props/ReviewC04.lean and notes/agents/gF.md that break RowsBelow / PacketsTotal are out of contract at their first op inside the "
    "iterator; cif_pktitr_update_packet with a packet that names a key twice is out of contract (a packet is a map)",
    "the tree-shaped documented model (Spec/DataModel `Cif`, `abs`) is a projection of the identity model: absS_tree proves (absS d).tree = abs d; "
    "only get_block, create_block, get_all_blocks, get_frame, create_frame, destroy_container are stated against the tree directly",
    "enumeration ORDER of get_all_blocks / get_all_frames / get_all_loops / get_names: specStep fixes it (table order = creation order), "
    "but the correspondence run compares canonical (sorted) dumps, so order is a model statement only",
    "item-name normalisation is a parameter (C09): the identity model identifies items by the normalised key the caller passes; "
    "the norm-based statements (C04_code_*, C04_add_packet_is_spec_packet) assume names stored normalised (ItemsNormOK)",
    "'interleaved with parsing' (the property text): superseded by the item of group gX below — the store calls of every parse are an in-contract history (C03_parse_is_store_history), so the history theorems apply to parsed content",
    "correspondence is three-way: the model driver runs specStep beside step on every in-contract history (families store, iter, storefault) and "
    "prints a marker into its answer when the documented model's prediction (result, every CIF's canonical dump, autocommit, handle liveness) "
    "differs from the store model's — the executable double check of C04_refines_hist; out-of-contract histories are compared store model vs "
    "library only",
]
LEVEL_TEXT = ("Proof (partial where stated): an executable relational model of the SQLite-backed store (every function of cif.c/container.c/loop.c/"
              "pktitr.c as the C's sequence of SQL statements and transaction macros) with a machine-checked invariant over ALL API histories "
              "by induction over the op list; schema facts re-extracted from the sources on every run and re-checked by kernel `decide`; "
              "the documented model with object identities (specStep) refined by the store model for every op of every in-contract history; "
              "documented model, store model and real library compared on ~1500 (quick) / 12000 (thorough) random histories with a dump after every op.")
LEVEL_NOTE = ("Refinement to the documented data model: ONE theorem over in-contract histories for all 31 ops (C04_refines_hist, see PARTIAL), checked three-way (documented model = store model = library) on every generated in-contract history; both findings of this property (F30, F34) are repaired in /repo. Trusted: Lean kernel, the schema translator, SQLite's enforcement of the schema, "
              "the executor/generator/oracle.")
TECHNIQUE = "Lean 4 proof (invariant by induction over API histories) about an executable relational model tied to the sources by translated schema facts and differential execution"

# ---- group gX: lenient creations; the parser's calls as in-contract histories ----
PARTIAL += [
    "group gX — Store.Op.mkBlock / mkFrame carry the `lenient` argument of cif_create_block_internal / cif_container_create_frame_internal "
    "(validity check skipped, normalisation and duplicate test unchanged); step, specStep (specCreateBlock / specCreateFrameH with the flag), "
    "inContract, C04_refines / C04_wok_step / C04_inv_step cover both forms (Lemmas/StoreSpecRefine createBlock_specL / createFrame_specL); "
    "families store / storecontract generate lenient creations with valid, invalid and duplicate codes (NAME token suffix /L; executor: the "
    "_internal functions with lenient = 1).  `interleaved with parsing`: the store calls of EVERY parse into a new CIF are an in-contract history "
    "(C03_parse_is_store_history, Props/C03Store.lean), so C04_refines_from_start and every theorem about in-contract histories apply to "
    "what the parser built; pre-existing targets: as represented worlds (C03_parser_store_refines_from_rep), otherwise executed (family "
    "parse, sto=ok).",
]
