PROPERTY = "C04"
LEVEL = "proof"
LEAN_MODULES = ["CifModel.Props.C04", "CifModel.Model.StoreSchema", "CifModel.Model.StoreContract"]
REQUIRED = ["CifModel.C04_inv_init", "CifModel.C04_inv_sql", "CifModel.C04_inv_step", "CifModel.C04_inv_reachable",
            "CifModel.C04_inv_gives_loop_keys", "CifModel.names_returned_as_created", "CifModel.set_value_all_packets_or_new_scalar",
            "CifModel.remove_last_item_removes_loop", "CifModel.scalar_category_cannot_be_given",
            "CifModel.scalar_category_cannot_be_taken", "CifModel.destroy_removes_subtree_only", "CifModel.cifs_independent", "CifModel.names_returned_as_created_frame",
            "CifModel.names_returned_as_created_items", "CifModel.set_value_new_item_goes_to_scalar", "CifModel.C04_refines_get_block",
            "CifModel.C04_refines_create_block", "CifModel.C04_refines_all_blocks", "CifModel.C04_refines_get_frame", "CifModel.C04_refines_create_loop", "CifModel.C04_refines_add_packet", "CifModel.C04_add_packet_total", "CifModel.C04_refines_get_value", "CifModel.C04_refines_set_value", "CifModel.C04_refines_remove_item", "CifModel.C04_refines_destroy_loop", "CifModel.C04_refines_set_category", "CifModel.C04_refines_set_value_new", "CifModel.C04_refines_add_item", "CifModel.C04_refines_prune", "CifModel.C04_get_value_column", "CifModel.C04_add_packet_is_spec_packet",
            "CifModel.C04_cex_F30_pinned", "CifModel.C04_cex_F34_pinned",
            "CifModel.C04_wok_init", "CifModel.C04_wok_step", "CifModel.C04_wok_hist", "CifModel.C04_packets_total", "CifModel.C04_rows_below", "CifModel.C04_iterator_tied", "CifModel.C04_quiet", "CifModel.C04_add_packet_in_contract", "CifModel.C04_set_category_in_contract", "CifModel.C04_get_value_in_wok", "CifModel.C04_remove_item_in_wok", "CifModel.C04_refines", "CifModel.C04_refines_hist",
            "CifModel.C04_code_set_category", "CifModel.C04_code_add_packet", "CifModel.C04_code_remove_item",
            "CifModel.C04_abs_fuel_suffices", "CifModel.C04_refines_create_frame", "CifModel.C04_create_frame_elsewhere", "CifModel.C04_refines_destroy_container",
            "CifModel.Store.schema_tables_link", "CifModel.Store.schema_triggers_link", "CifModel.Store.schema_sql_link",
            "CifModel.Store.schema_messages_link", "CifModel.Store.C05_paths_link"]
GEN = ["ErrCodes", "Schema"]
FAMILIES = ["store"]
TRUSTED_BASE = [
    "Lean 4.33.0 kernel; axioms propext, Quot.sound, Classical.choice only (audited per theorem)",
    "tools/translate_schema.py: extraction of tables/keys/cascades/CHECKs/triggers from schema.h (= cif_schema.sql), the SQL of sql.h, "
    "the compared message strings and the transaction-macro uses per function (all re-checked by `decide` link theorems in Model/StoreSchema.lean)",
    "SQLite as a relational store that enforces exactly these schema facts, with BEGIN/COMMIT/ROLLBACK/SAVEPOINT restoring snapshots "
    "(assumed; observed by the correspondence run incl. sqlite3_get_autocommit)",
    "harness/x_store.c (executor, canonical dumps via the public query API; raw SQL dump while a transaction is open), harness/cifio.h, "
    "tools/gen/store.py (generator, oracle), lean/Driver/Fam/Store.lean (request parsing, printing)",
    "name normalisation is a parameter: requests carry (normalised key, original spelling, validity) computed by Python's unicodedata "
    "on a pool where it agrees with ICU (property C09's subject)",
]
ASSUMPTIONS = [
    "values stored satisfy the CHECK constraints of item_value (property C07's subject); the model stores value objects opaquely",
    "the store's enumeration orders are not fixed by any property: observations are canonical (sorted) dumps",
]
PARTIAL = [
    "C04_refines is proved op by op, not as one specStep over whole histories: get_block, create_block, get_all_blocks, get_frame commute with abs and "
    "agree in their results; in container-local form (absLoops = the loop list abs shows for a container; every other loop of the CIF unchanged): "
    "create_loop (no extra hypothesis any more: loop numbers below next_loop_num is part of Inv), add_packet (hypothesis RowsBelow: not an "
    "unconditional invariant of the model — see notes — but evaluated by the model driver on every state of every generated history), set_value of an "
    "existing item, set_value of a new item (add_item count + exactly one new packet when the scalar loop had none), add_item, set_category, prune, "
    "loop_destroy / remove_item of the last item (no extra hypothesis), remove_item with items left and the query get_value (under completeness of "
    "the packets — since fix e266ec6 every packet add_packet makes is total: C04_add_packet_total; the pinned behaviour: C04_cex_F30_pinned). Not proved: create_frame, destroy of blocks/frames (need fuel-independence of absContainer), "
    "agreement of the FAILURE codes with the Spec functions, one specStep over whole histories",
    "set_value_all_packets_or_new_scalar: the new-scalar half is proved only as 'goes through add_scalar' (set_value_new_item_goes_to_scalar)",
]
LEVEL_TEXT = ("Proof (partial where stated): an executable relational model of the SQLite-backed store (every function of cif.c/container.c/loop.c/"
              "pktitr.c as the C's sequence of SQL statements and transaction macros) with a machine-checked invariant over ALL API histories "
              "by induction over the op list; schema facts re-extracted from the sources on every run and re-checked by kernel `decide`; "
              "model and real library compared on ~1500 (quick) / 12000 (thorough) random histories with a dump after every op.")
LEVEL_NOTE = ("Refinement to the documented data model is proved for blocks/frames, proved op by op for loops (see PARTIAL); both findings of this property (F30, F34) are repaired in /repo. Trusted: Lean kernel, the schema translator, SQLite's enforcement of the schema, "
              "the executor/generator/oracle.")
TECHNIQUE = "Lean 4 proof (invariant by induction over API histories) about an executable relational model tied to the sources by translated schema facts and differential execution"
