PROPERTY = "C04"
LEVEL = "proof"
LEAN_MODULES = ["CifModel.Props.C04", "CifModel.Model.StoreSchema", "CifModel.Model.StoreContract", "CifModel.Props.ReviewC04"]
REQUIRED = ["CifModel.C04_inv_init", "CifModel.C04_inv_sql", "CifModel.C04_inv_step", "CifModel.C04_inv_reachable",
            "CifModel.C04_inv_gives_loop_keys", "CifModel.names_returned_as_created", "CifModel.set_value_all_packets_or_new_scalar",
            "CifModel.remove_last_item_removes_loop", "CifModel.scalar_category_cannot_be_given",
            "CifModel.scalar_category_cannot_be_taken", "CifModel.destroy_removes_subtree_only", "CifModel.cifs_independent", "CifModel.names_returned_as_created_frame",
            "CifModel.names_returned_as_created_items", "CifModel.set_value_new_item_goes_to_scalar", "CifModel.C04_refines_get_block",
            "CifModel.C04_refines_create_block", "CifModel.C04_refines_all_blocks", "CifModel.C04_refines_get_frame", "CifModel.C04_refines_create_loop", "CifModel.C04_refines_add_packet", "CifModel.C04_add_packet_total", "CifModel.C04_refines_get_value", "CifModel.C04_refines_set_value", "CifModel.C04_refines_remove_item", "CifModel.C04_refines_destroy_loop", "CifModel.C04_refines_set_category", "CifModel.C04_refines_set_value_new", "CifModel.C04_refines_add_item", "CifModel.C04_refines_prune", "CifModel.C04_get_value_column", "CifModel.C04_add_packet_is_spec_packet",
            "CifModel.C04_cex_F30_pinned", "CifModel.C04_cex_F34_pinned",
            "CifModel.C04_wok_init", "CifModel.C04_wok_step", "CifModel.C04_wok_hist", "CifModel.C04_packets_total", "CifModel.C04_rows_below", "CifModel.C04_iterator_tied", "CifModel.C04_quiet", "CifModel.C04_add_packet_in_contract", "CifModel.C04_set_category_in_contract", "CifModel.C04_get_value_in_wok", "CifModel.C04_remove_item_in_wok", "CifModel.C04_refines", "CifModel.C04_refines_hist", "CifModel.C04_second_get_packets_refused", "CifModel.remove_last_item_sql",
            "CifModel.C04_code_set_category", "CifModel.C04_code_add_packet", "CifModel.C04_code_remove_item",
            "CifModel.C04_abs_fuel_suffices", "CifModel.C04_refines_create_frame", "CifModel.C04_create_frame_elsewhere", "CifModel.C04_refines_destroy_container",
            "CifModel.Store.schema_tables_link", "CifModel.Store.schema_triggers_link", "CifModel.Store.schema_sql_link",
            "CifModel.Store.schema_messages_link", "CifModel.Store.C05_paths_link"]
GEN = ["ErrCodes", "Schema"]
FAMILIES = ["store"]
TRUSTED_BASE = [
    "Lean 4.33.0 kernel; axioms propext, Quot.sound, Classical.choice only (audited per theorem)",
    "tools/translate_schema.py: extraction of tables/keys/cascades/CHECKs/triggers from schema.h (= cif_schema.sql), the SQL of sql.h, "
    "the compared message strings and the transaction-macro uses per function (all re-checked by `decide` link theorems in Model/StoreSchema.lean)",
    "SQLite as a relational store that enforces exactly these schema facts, with BEGIN/COMMIT/ROLLBACK/SAVEPOINT restoring snapshots "
    "(assumed; observed by the correspondence run incl. sqlite3_get_autocommit)",
    "harness/x_store.c (executor, canonical dumps via the public query API; raw SQL dump while a transaction is open), harness/cifio.h, "
    "tools/gen/store.py (generator, oracle), lean/Driver/Fam/Store.lean (request parsing, printing)",
    "name normalisation is a parameter: requests carry (normalised key, original spelling, validity) computed by Python's unicodedata "
    "on a pool where it agrees with ICU (property C09's subject)",
]
ASSUMPTIONS = [
    "values stored satisfy the CHECK constraints of item_value (property C07's subject); the model stores value objects opaquely",
    "the store's enumeration orders are not fixed by any property: observations are canonical (sorted) dumps",
]
PARTIAL = [
    "Headline: C04_refines / C04_refines_hist — for every op of an in-contract history (inContract: valid handles, no other work on a CIF while "
    "an iterator is open on it) started in a world satisfying WOk (C04_wok_init / C04_wok_step: Inv, PacketsTotal, RowsBelowAll, ScalarCount, "
    "iterators tied, one iterator per CIF, autocommit outside iterators), the API FUNCTION as `step` runs it does to the documented model with "
    "object identities (absW, Spec/StoreSpec) exactly what specStep says and returns the same code — for 24 of the 31 ops (Op.covered). "
    "NOT covered by specStep: set_value (only its Db-level pieces: C04_refines_set_value = SET_ALL_VALUES_SQL on an existing item, "
    "C04_refines_set_value_new = the add_scalar composition body by body) and the six iterator calls (C06 states them on the store model)",
    "the theorems named C04_refines_<op> / C04_code_<op> are statements about single SQL statements or the transaction BODIES of the functions "
    "(addPacketBody, createLoopBody, Db.setAllValues, …), NOT about the API functions: they are the lemmas C04_refines is composed from and are "
    "superseded by it for the covered ops; remove_last_item_removes_loop is now about cif_container_remove_item itself "
    "(the SQL-level fact is remove_last_item_sql)",
    "the contract is stricter than cif.h: any non-iterator call on a CIF with an open iterator is out of contract (cif.h only makes access "
    "to the iterated loop undefined and other modifications 'sensitive to the iterator'), except a further get_packets, which is in contract and "
    "refused (C04_second_get_packets_refused); handles are valid by STATE (their row exists, cached category current) — the two histories in "
    "Props/ReviewC04.lean and notes/agents/gF.md that break RowsBelow / PacketsTotal are out of contract at their first op inside the iterator",
    "the tree-shaped documented model (Spec/DataModel `Cif`, `abs`) is a projection of the identity model; only get_block, create_block, "
    "get_all_blocks, get_frame, create_frame, destroy_container are stated against it directly (C04_refines_get_block … C04_refines_destroy_container)",
    "enumeration ORDER of get_all_blocks / get_all_frames / get_all_loops / get_names: specStep fixes it (table order = creation order), "
    "but the correspondence run compares canonical (sorted) dumps, so order is a model statement only",
    "item-name normalisation is a parameter (C09): the identity model identifies items by the normalised key the caller passes; "
    "the norm-based statements (C04_code_*, C04_add_packet_is_spec_packet) assume names stored normalised (ItemsNormOK)",
    "'interleaved with parsing' (the property text) is carried by nothing here: parsing drives the same API functions (C03/C12's subject)",
]
LEVEL_TEXT = ("Proof (partial where stated): an executable relational model of the SQLite-backed store (every function of cif.c/container.c/loop.c/"
              "pktitr.c as the C's sequence of SQL statements and transaction macros) with a machine-checked invariant over ALL API histories "
              "by induction over the op list; schema facts re-extracted from the sources on every run and re-checked by kernel `decide`; "
              "model and real library compared on ~1500 (quick) / 12000 (thorough) random histories with a dump after every op.")
LEVEL_NOTE = ("Refinement to the documented data model: one theorem over in-contract histories for 24 of 31 ops (see PARTIAL); both findings of this property (F30, F34) are repaired in /repo. Trusted: Lean kernel, the schema translator, SQLite's enforcement of the schema, "
              "the executor/generator/oracle.")
TECHNIQUE = "Lean 4 proof (invariant by induction over API histories) about an executable relational model tied to the sources by translated schema facts and differential execution"
