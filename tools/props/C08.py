PROPERTY = "C08"
LEVEL = "proof"
LEAN_MODULES = ["CifModel.Props.C08", "CifModel.Props.ReviewC08"]
REQUIRED = ["CifModel.C08_firstChar_link", "CifModel.C08_fold_prefix", "CifModel.C08_fold_any_chunking",
            "CifModel.C08_chunking_irrelevant", "CifModel.C08_style_independent", "CifModel.C08_handle_eol",
            "CifModel.C08_line_numbers", "CifModel.C08_unrepaired_first_char", "CifModel.C08_cex_three_cr",
            "CifModel.C08_buffer_moves_preserve_token", "CifModel.C08_buffer_cases", "CifModel.C08_buffer_room",
            "CifModel.C08_buffer_init", "CifModel.C08_ws_lengthening", "CifModel.C08_ws_lengthening_insert",
            "CifModel.C08_ws_lengthening_any_chunking"]
GEN = ["ParseConsts"]
FAMILIES = ["fills", "align", "bufscan"]
TRUSTED_BASE = [
    "Lean 4.33.0 kernel; axioms propext, Quot.sound, Classical.choice only",
    "Model/Fill.lean as a description of get_first_char / get_more_chars / HANDLE_EOL (parser.c): tied by family `fills`, which "
    "drives the real static functions (parser.c is #included into the executor) and the whole cif_parse_internal with a "
    "character source that delivers a chosen chunking — exhaustively for every string over {a,CR,LF} up to length 6 (quick) / 8 "
    "(thorough) under every chunking",
    "tools/translate_consts.py: BUF_SIZE_INITIAL, BUF_MIN_FILL, BUFFER_SIZE, the literal read sizes of get_first_char, the "
    "cr_pending update of get_more_chars, whether get_first_char folds a look-ahead CR (C08_firstChar_link)",
    "Spec/Eol.lean (normalizeEOL, lineAfter, respell) as the meaning of 'the same whether lines end in LF, CR LF or CR'",
    "harness/x_fills.c, harness/x_align.c, harness/cifio.h (canonical dump), tools/gen/fills.py, tools/gen/align.py (generators, "
    "implementation-level oracles: parse of any re-spelled / re-chunked / padded document == parse of the LF / unpadded form)",
    "ICU's byte->UTF-16 converters (ucnv_toUnicode) across 4096-byte refills: exercised by family `align`, not modelled",
]
ASSUMPTIONS = [
    "the number of units each read_func call asks for (a function of the scan buffer's bookkeeping: reset / move / doubling in "
    "get_more_chars) is a universally quantified parameter of the theorems (any sequence of sizes >= 1) and is observed from the "
    "real run by the executor; the buffer moves themselves (memmove, malloc, text_start / tvalue_start rebasing) are "
    "correspondence-only (ASan on)",
    "read_func returns between 1 and `count` units while input remains and 0 at its end (contract of read_chars_f)",
    "every EOL-class unit the scanners pass goes through HANDLE_EOL with `sol` reset by any other unit (scan_ws, "
    "scan_triple_delim_string, scan_text as written)",
]
PARTIAL = [
    "the 4096-byte refill of ustream_read_chars and ICU's incremental conversion are observed, not modelled (family align); the "
    "scan buffer's compaction / doubling is modelled (Model/ScanBuf.lean, C08_buffer_moves_preserve_token) and tied by fills "
    "mode o, but the composition 'every scanner function re-reads its pointers after a refill' (the G2 class of defect) is "
    "correspondence-only",
    "C08_ws_lengthening requires the two separators to end in the same column (lengthening blanks in front of a token on the "
    "same line moves the token: `;` in column 1 and the 2048-character limit make that a genuine precondition) and a "
    "callback policy that does not look at line numbers",
]
LEVEL_TEXT = ("Proof for terminator folding and chunking: Lean theorems over ALL inputs, ALL chunkings by the character source "
              "and ALL request-size sequences show that the scanner is handed exactly normalizeEOL(input) "
              "(C08_fold_any_chunking), hence any function of it — content, error codes, line numbers — is independent of "
              "terminator style (C08_style_independent, C08_line_numbers), and that HANDLE_EOL counts CR LF once on any "
              "stream (C08_handle_eol); the buffer moves of get_more_chars preserve the token being scanned for every state "
              "(C08_buffer_moves_preserve_token) and every read asks for >= 1 units (C08_buffer_room); replacing a separator by "
              "any other whitespace/comment run leaves the whole following token stream unchanged up to the line shift "
              "(C08_ws_lengthening, on gD's C01_lex_sep plus the line-shift invariance of the lexer model proved here).")
LEVEL_NOTE = ("Partial in the respects named in PARTIAL (byte-buffer refills / ICU observed only; same-column precondition of "
              "C08_ws_lengthening). Trusted: Lean kernel, the hand-written Fill model "
              "(tied exhaustively on short streams and by random long ones), translate_consts.py, harness + oracles.")
TECHNIQUE = "Lean 4 proof by induction over chunkings with the carried scanner state as invariant + exhaustive/random differential execution of the real fill functions and parser"
