PROPERTY = "C08"
LEVEL = "proof"
LEAN_MODULES = ["CifModel.Props.C08", "CifModel.Props.C08Buf", "CifModel.Props.ReviewC08"]
REQUIRED = ["CifModel.C08_firstChar_link", "CifModel.C08_fold_prefix", "CifModel.C08_fold_any_chunking",
            "CifModel.C08_chunking_irrelevant", "CifModel.C08_style_independent", "CifModel.C08_handle_eol",
            "CifModel.C08_line_numbers", "CifModel.C08_unrepaired_first_char", "CifModel.C08_cex_three_cr",
            "CifModel.C08_buffer_moves_preserve_token", "CifModel.C08_buffer_cases", "CifModel.C08_buffer_room",
            "CifModel.C08_buffer_init", "CifModel.C08_ws_lengthening", "CifModel.C08_ws_lengthening_insert",
            "CifModel.C08_ws_lengthening_any_chunking",
            "CifModel.C08_bufscan_refines_lexer", "CifModel.C08_bufscan_refines_lexer_tree",
            "CifModel.C08_bufscan_boundaries_irrelevant", "CifModel.C08_bufscan_style_independent", "CifModel.C08_bufscan_refill",
            "CifModel.C08_bufscan_offsets_ordered", "CifModel.C08_bufscan_trim_token", "CifModel.C08_bufscan_push_colon",
            "CifModel.C08_bufscan_pushback_streams", "CifModel.C08_bufscan_terminator_fits"]
GEN = ["ParseConsts"]
FAMILIES = ["fills", "align", "bufscan"]
TRUSTED_BASE = [
    "Lean 4.33.0 kernel; axioms propext, Quot.sound, Classical.choice only",
    "Model/Fill.lean as a description of get_first_char / get_more_chars / HANDLE_EOL (parser.c): tied by family `fills`, which "
    "drives the real static functions (parser.c is #included into the executor) and the whole cif_parse_internal with a "
    "character source that delivers a chosen chunking — exhaustively for every string over {a,CR,LF} up to length 6 (quick) / 8 "
    "(thorough) under every chunking",
    "Model/BufScan.lean as a description of next_token / scan_ws / scan_to_ws / scan_to_eol / scan_unquoted / scan_delim_string / "
    "scan_triple_delim_string / scan_text and the macros NEXT_CHAR / PEEK_CHAR / BACK_UP / CONSUME_TOKEN / SCAN_UCHAR / HANDLE_EOL / "
    "TVALUE_* over buffer offsets with get_more_chars in the middle of a token: tied by family `bufscan`, which runs the real static "
    "next_token (parser.c #included) with a chosen chunking and a chosen small initial scan buffer and compares tokens, reports "
    "(code, line, column) and the five buffer offsets + buffer_size after every token; the decision logic of SCAN_UCHAR, HANDLE_EOL's "
    "arithmetic and the reserved-word test are shared with Model/Lexer.lean (group gD, tied by family `lex`)",
    "tools/translate_consts.py: BUF_SIZE_INITIAL, BUF_MIN_FILL, BUFFER_SIZE, the literal read sizes of get_first_char, the "
    "cr_pending update of get_more_chars, whether get_first_char folds a look-ahead CR (C08_firstChar_link)",
    "Spec/Eol.lean (normalizeEOL, lineAfter, respell) as the meaning of 'the same whether lines end in LF, CR LF or CR'",
    "harness/x_fills.c, harness/x_align.c, harness/cifio.h (canonical dump), tools/gen/fills.py, tools/gen/align.py (generators, "
    "implementation-level oracles: parse of any re-spelled / re-chunked / padded document == parse of the LF / unpadded form)",
    "ICU's byte->UTF-16 converters (ucnv_toUnicode) across 4096-byte refills: exercised by family `align`, not modelled",
]
ASSUMPTIONS = [
    "in the fill-level theorems (C08_fold_*) the number of units each read_func call asks for is a universally quantified "
    "parameter (any sequence of sizes >= 1), observed from the real run by the executor; in the buffer-level theorems "
    "(C08_bufscan_*) it is computed by the model (buffer_size - buffer_limit after makeRoom) and the buffer moves (reset, memmove, "
    "doubling, rebasing of text_start / tvalue_start / next_char) are part of the proved refinement; malloc failure "
    "(CIF_MEMORY_ERROR) and read errors are not modelled",
    "read_func returns between 1 and `count` units while input remains and 0 at its end (contract of read_chars_f)",
    "every EOL-class unit the scanners pass goes through HANDLE_EOL with `sol` reset by any other unit (scan_ws, "
    "scan_triple_delim_string, scan_text as written)",
]
PARTIAL = [
    "the 4096-byte refill of ustream_read_chars and ICU's incremental conversion are observed, not modelled (family align)",
    "C08_bufscan_refines_lexer covers the SCANNER (get_first_char, then next_token / CONSUME_TOKEN until END or abort, every scan "
    "function, every refill in the middle of a token, any chunking, any initial buffer size >= 2, any BUF_MIN_FILL >= 1). NOT covered by "
    "the refinement of the whole PARSER: of what the grammar productions do to the buffer between two next_token calls, TRIM_TOKEN and "
    "the colon push-back are modelled at buffer level, proved equal to group gJ's Parser.trimTok / Parser.pushColon "
    "(C08_bufscan_trim_token, C08_bufscan_push_colon, C08_bufscan_pushback_streams: token streams in which pushed-back units are "
    "scanned again) and tied by the ops mode of family bufscan; but the productions themselves are not re-stated over the buffer, so "
    "a token pointer kept by a production across a next_token call, the write and restore of the NUL terminator behind a BLOCK_HEAD / "
    "FRAME_HEAD token (only its being inside the buffer array is proved: C08_bufscan_terminator_fits), the BOM / magic-code prologue of cif_parse_internal (scan_to_ws followed "
    "by `next_char = text_start`), the text handed to the whitespace callback and decode_text's own terminator handling remain "
    "correspondence-only (fills P, align, parsedoc)",
    "C08_ws_lengthening requires the two separators to end in the same column (lengthening blanks in front of a token on the "
    "same line moves the token: `;` in column 1 and the 2048-character limit make that a genuine precondition) and a "
    "callback policy that does not look at line numbers",
]
LEVEL_TEXT = ("Proof for terminator folding and chunking: Lean theorems over ALL inputs, ALL chunkings by the character source "
              "and ALL request-size sequences show that the scanner is handed exactly normalizeEOL(input) "
              "(C08_fold_any_chunking), hence any function of it — content, error codes, line numbers — is independent of "
              "terminator style (C08_style_independent, C08_line_numbers), and that HANDLE_EOL counts CR LF once on any "
              "stream (C08_handle_eol); the buffer moves of get_more_chars preserve the token being scanned for every state "
              "(C08_buffer_moves_preserve_token) and every read asks for >= 1 units (C08_buffer_room); the scanner written over buffer "
              "offsets (next_token and the seven scan functions with NEXT_CHAR / PEEK_CHAR / BACK_UP / SCAN_UCHAR / TVALUE_*, "
              "get_more_chars called in the middle of tokens, `top` re-read where the C re-reads it) produces, for EVERY input, EVERY "
              "chunking, every initial buffer size >= 2 and every policy, exactly the tokens (type, text, line, column), return value "
              "and reports of the list-level lexer model on normalizeEOL(input) (C08_bufscan_refines_lexer, by one simulation lemma "
              "per scan function over the loop iterations; corollaries C08_bufscan_boundaries_irrelevant, "
              "C08_bufscan_style_independent; C08_bufscan_offsets_ordered: at every token text_start <= tvalue_start, "
              "tvalue_start + tvalue_length <= next_char <= buffer_limit <= buffer_size; C08_bufscan_terminator_fits: the unit behind a "
              "BLOCK_HEAD / FRAME_HEAD value, where the parser writes its string terminator, is inside the buffer array); replacing a separator by "
              "any other whitespace/comment run leaves the whole following token stream unchanged up to the line shift "
              "(C08_ws_lengthening, on gD's C01_lex_sep plus the line-shift invariance of the lexer model proved here).")
LEVEL_NOTE = ("Partial in the respects named in PARTIAL (byte-buffer refills / ICU observed only; of the productions' own buffer "
              "manipulations between tokens TRIM_TOKEN and the colon push-back are proved, REJECT_TOKEN, the in-buffer NUL "
              "terminator, the BOM / magic prologue are correspondence-only; same-column precondition of C08_ws_lengthening). Trusted: Lean kernel, the hand-written Fill, "
              "ScanBuf and BufScan models (tied exhaustively on short streams under every chunking with 2- and 3-unit buffers, "
              "and by random documents), translate_consts.py, harness + oracles.")
TECHNIQUE = "Lean 4 proof by induction over chunkings with the carried scanner state as invariant, refinement (simulation) of the list-level lexer by the buffer-level scanner + exhaustive/random differential execution of the real fill functions, scanner and parser"

# ---- group gV: the byte-level character source (ustream_read_chars, ucnv_toUnicode + callback, 4096-byte refills) ----
LEAN_MODULES += ["CifModel.Props.C08Stream"]
REQUIRED += ["CifModel.C08_ustream_buffer_link", "CifModel.C08_ustream_any_requests", "CifModel.C08_ustream_any_requests_utf8",
             "CifModel.C08_ustream_any_requests_utf16", "CifModel.C08_ustream_call", "CifModel.C08_ustream_bytes_conserved",
             "CifModel.C08_bytes_to_scanner", "CifModel.C08_utf8_incremental", "CifModel.C08_utf16_incremental"]
FAMILIES += ["ustream"]
PARTIAL += [
    "byte level (supersedes the first item as far as ustream_read_chars is concerned): Model/Ustream.lean models ustream_read_chars, "
    "the refill of the 4096-byte buffer, ucnv_toUnicode with the CIF callback (overflow buffer, replacement unit) over a converter "
    "PARAMETER constrained by `Laws` (prefix-incrementality, progress, overflow only when full); C08_ustream_any_requests / "
    "C08_bytes_to_scanner hold for every such converter, every byte string, every request-size sequence; the model's UTF-8 and "
    "UTF-16LE/BE converters meet the contract (C08_utf8_incremental, C08_utf16_incremental) and are tied to ICU 72 by family "
    "`ustream` (real ustream_read_chars on fmemopen files, every alignment around 4096·k, capacity 1, malformed input). NOT proved: "
    "that the model's UTF-8 transducer equals an independent specification of UTF-8 (Unicode Table 3-7) — it is compared with "
    "ICU and with a hand-written Python reference decoder by the family's oracle only; other ICU converters (the system default, "
    "windows-1252, …) are covered only as instances of `Laws` that nothing establishes; fread's I/O-error return is not modelled; "
    "C08_bytes_to_scanner composes the deliveries with Model/Fill as a chunked source (any request sizes on both sides), not the "
    "pointer-level hand-over dest = buffer + buffer_limit",
]
