PROPERTY = "C08"
LEVEL = "proof"
LEAN_MODULES = ["CifModel.Props.C08"]
REQUIRED = ["CifModel.C08_firstChar_link", "CifModel.C08_fold_prefix", "CifModel.C08_fold_any_chunking",
            "CifModel.C08_chunking_irrelevant", "CifModel.C08_style_independent", "CifModel.C08_handle_eol",
            "CifModel.C08_line_numbers", "CifModel.C08_unrepaired_first_char", "CifModel.C08_cex_three_cr"]
GEN = ["ParseConsts"]
FAMILIES = ["fills", "align"]
TRUSTED_BASE = [
    "Lean 4.33.0 kernel; axioms propext, Quot.sound, Classical.choice only",
    "Model/Fill.lean as a description of get_first_char / get_more_chars / HANDLE_EOL (parser.c): tied by family `fills`, which "
    "drives the real static functions (parser.c is #included into the executor) and the whole cif_parse_internal with a "
    "character source that delivers a chosen chunking — exhaustively for every string over {a,CR,LF} up to length 6 (quick) / 8 "
    "(thorough) under every chunking",
    "tools/translate_consts.py: BUF_SIZE_INITIAL, BUF_MIN_FILL, BUFFER_SIZE, the literal read sizes of get_first_char, the "
    "cr_pending update of get_more_chars, whether get_first_char folds a look-ahead CR (C08_firstChar_link)",
    "Spec/Eol.lean (normalizeEOL, lineAfter, respell) as the meaning of 'the same whether lines end in LF, CR LF or CR'",
    "harness/x_fills.c, harness/x_align.c, harness/cifio.h (canonical dump), tools/gen/fills.py, tools/gen/align.py (generators, "
    "implementation-level oracles: parse of any re-spelled / re-chunked / padded document == parse of the LF / unpadded form)",
    "ICU's byte->UTF-16 converters (ucnv_toUnicode) across 4096-byte refills: exercised by family `align`, not modelled",
]
ASSUMPTIONS = [
    "the number of units each read_func call asks for (a function of the scan buffer's bookkeeping: reset / move / doubling in "
    "get_more_chars) is a universally quantified parameter of the theorems (any sequence of sizes >= 1) and is observed from the "
    "real run by the executor; the buffer moves themselves (memmove, malloc, text_start / tvalue_start rebasing) are "
    "correspondence-only (ASan on)",
    "read_func returns between 1 and `count` units while input remains and 0 at its end (contract of read_chars_f)",
    "every EOL-class unit the scanners pass goes through HANDLE_EOL with `sol` reset by any other unit (scan_ws, "
    "scan_triple_delim_string, scan_text as written)",
]
PARTIAL = [
    "C08_ws_lengthening_full (lengthening insignificant whitespace never changes later tokens) is stated as a def over the "
    "token-level lexer model owned by the lexer group (C01); here it is covered only by correspondence: family `align` pads "
    "documents with whitespace/comments to every alignment and compares the parse with the unpadded form",
    "scan-buffer compaction/expansion and the 4096-byte refill of ustream_read_chars are observed, not proved (families fills "
    "modes k/h with streams > 131200 units, align with 70 000 / 140 000-unit tokens)",
]
LEVEL_TEXT = ("Proof for terminator folding and chunking: Lean theorems over ALL inputs, ALL chunkings by the character source "
              "and ALL request-size sequences show that the scanner is handed exactly normalizeEOL(input) "
              "(C08_fold_any_chunking), hence any function of it — content, error codes, line numbers — is independent of "
              "terminator style (C08_style_independent, C08_line_numbers), and that HANDLE_EOL counts CR LF once on any "
              "stream (C08_handle_eol). Buffer mechanics and whitespace lengthening are covered by differential execution only.")
LEVEL_NOTE = ("Partial in two named respects: buffer compaction/expansion and byte-buffer refills are correspondence-only; "
              "C08_ws_lengthening is a `_full` def awaiting the lexer model. Trusted: Lean kernel, the hand-written Fill model "
              "(tied exhaustively on short streams and by random long ones), translate_consts.py, harness + oracles.")
TECHNIQUE = "Lean 4 proof by induction over chunkings with the carried scanner state as invariant + exhaustive/random differential execution of the real fill functions and parser"
