PROPERTY = "C13"
LEVEL = "proof"
LEAN_MODULES = ["CifModel.Props.C13", "CifModel.Props.C13Doc", "CifModel.Props.C13First", "CifModel.Props.C13Lines", "CifModel.Props.C13Clean", "CifModel.Props.ReviewC13"]
REQUIRED = ["CifModel.C13_text_pure", "CifModel.C13_no_triple", "CifModel.C13_refusal_codes", "CifModel.C13_never_silently_alters",
            "CifModel.C13_value_roundtrip", "CifModel.C13_run", "CifModel.C13_refusal_codes_doc", "CifModel.C13_pure",
            "CifModel.C13_refuses", "CifModel.C13_refuses_value", "CifModel.C13_refuses_char", "CifModel.C13_roundtrip", "CifModel.C13_output_units", "CifModel.C13_roundtrip_sample",
            "CifModel.C13_first_refused", "CifModel.C13_first_none_iff", "CifModel.C13_first_order", "CifModel.C13_first_order_written",
            "CifModel.C13_roundtrip_nl", "CifModel.C13_line_bound_of_valid",
            "CifModel.C13_success_implies_clean", "CifModel.C13_cr_refused"]
GEN = ["WriterConsts", "ErrCodes"]
FAMILIES = ["decode", "writeval11", "write11"]
TRUSTED_BASE = [
    "Lean 4.33.0 kernel; axioms propext, Classical.choice, Quot.sound only",
    "tools/translate_writer.py (cif11_chars[], the bound of is_allowed[], writer constants and literals)",
    "harness/x_write.c, x_decode.c, cifio.h and tools/gen/{write,writeval,write11,writeval11,decode}.py (CIF 1.1 mode: cif_version = 1; re-parse "
    "with prefer_cif2 = -1, line_folding_modifier = 1, text_prefixing_modifier = 1)",
    "ICU u_fprintf / u_fputc and the default converter used by u_finit(stream, NULL, NULL) for ASCII output",
    "Model/Analyze.lean (group gA); C18_delim_permitted for 'no triple quotes without allow_triple_quoted'",
]
ASSUMPTIONS = [
    "the output stream never fails",
    "strings contain no NUL and, for the round-trip theorem, no CR (CR is a CIF 1.1 character: a value holding one is written, but the "
    "re-parse normalises it to LF — outside the theorem, checked by the oracle only for CR-free values)",
    "the store's enumeration order is an input of the writer model",
]
PARTIAL = [
    "C13_first_refused concludes only the REFUSAL CODE (cif_write returns nothing else): 'which element' means that the code is that of the "
    "first element the scan containersFirst finds — the theorem does not (and, from the return value, cannot) identify the element itself.  "
    "Statement: for every walk order and every writable CIF cif_write (CIF 1.1) succeeds iff the scan "
    "containersFirst (container code, save frames, loops; loop-header names before packets; a data name before its value; within a string a CR (value) first, then its "
    "characters, then its presentation; a list or table as such) finds nothing, and otherwise returns the code of the FIRST element it finds "
    "(CIF_DISALLOWED_CHAR for a code / name / string with a character outside CIF 1.1, CIF_DISALLOWED_VALUE for a list, table or string "
    "needing a text field with <LF>;) — property C13 itself does not fix the code when both kinds occur, so the order is compared with the "
    "real code by the model only (family write11: stream of CIFs holding both kinds in random order), not demanded by the oracle",
    "C13_roundtrip_nl: the CIF 1.1 round trip needs cifR .cif1 and blocksN only (the line-length hypothesis is derived); a string with a CR is refused "
    "with CIF_DISALLOWED_VALUE (repair of F-cr-altered: C13_cr_refused; the CR test precedes the character validation), so "
    "C13_success_implies_clean: success implies CR-free strings (C13's 'never succeeds while silently altering content'); C13_refuses' "
    "containersVE accordingly counts a CR as 'cannot be expressed'",
    "C13_refuses (whole documents, every walk order, no assumption on characters or value kinds beyond writability `containersOk`): "
    "cif_write in CIF 1.1 mode succeeds IFF every code / written name / string consists of CIF 1.1 characters (containersCE) and no value "
    "is a list, a table or a string that needs a text field and contains <LF>; (containersVE); on failure the code is CIF_DISALLOWED_CHAR "
    "with containersCE false or CIF_DISALLOWED_VALUE with containersVE false (C13_refuses_value / C13_refuses_char: the code per kind)",
    "C13_pure and C13_refusal_codes_doc are proved for whole documents (every walk order) under containersV1 (loops hold packets, names "
    "printable, numbers non-empty CIF 1.1 text); the line bound is C02_line_bound (version 1) under containersL",
    "C13_roundtrip (whole documents, CIF 1.1 writer -> CIF 1.1 parse with line unfolding and prefix removal on, every callback policy) is "
    "PROVED under the hypotheses of C02_roundtrip_doc read for the CIF 1.1 dialect (cifR .cif1, blocksN, containersL), save frames nested to any "
    "depth (frameN); the value level is also proved against the CIF 1.1 lexer model of group gD (C13_value_roundtrip)",
]
LEVEL_TEXT = ("Proof (partial): in CIF 1.1 mode write_char fails only with CIF_DISALLOWED_CHAR (witness: a unit outside cif11_chars) or "
              "CIF_DISALLOWED_VALUE (witness: the text needs a text field and contains <LF>;), never triple-quotes, and a text field it writes "
              "consists of CIF 1.1 characters and decodes (line unfolding and prefix removal enabled) to exactly the text. Tied to /repo by the "
              "translated cif11_chars[] / constants and byte-exact differential execution of cif_write in CIF 1.1 mode with a round-trip oracle.")
LEVEL_NOTE = ("Whole documents: purity, refusal iff inexpressible with the code of the first refused element in walk order (C13_refuses, "
              "C13_first_refused), round trip under cifR and blocksN alone (C13_roundtrip_nl) are proved about the models and checked per generated "
              "case by the oracle. Open finding: F-unquoted-overlong (F-cr-altered is repaired). Trusted: Lean kernel, translator, harness/oracle, ICU, "
              "Model/Analyze of group gA.")
TECHNIQUE = "Lean 4 proof about an executable model of the writer (CIF 1.1 mode) and of decode_text, tied to the sources by translated constants and byte-exact differential execution"
