PROPERTY = "C03"
LEVEL = "proof"
LEAN_MODULES = ["CifModel.Props.C03", "CifModel.Props.C03Extra", "CifModel.Lemmas.ParserTop", "CifModel.Lemmas.ParserQuiet", "CifModel.Lemmas.ParserConsistent", "CifModel.Lemmas.ParserRect", "CifModel.Lemmas.ParserStore", "CifModel.Props.C03Store", "CifModel.Model.ParserTrace", "CifModel.Model.ParserStoreOps", "CifModel.Lemmas.ParserTrace", "CifModel.Lemmas.ParserValues", "CifModel.Lemmas.ParserStoreOps", "CifModel.Lemmas.ParserTraceInv", "CifModel.Lemmas.ParserDetProd", "CifModel.Lemmas.ParserDetLex", "CifModel.Lemmas.ParserDet", "CifModel.Props.ReviewC03"]
REQUIRED = ["CifModel.C03_total", "CifModel.C03_clamp", "CifModel.C03_report_site", "CifModel.C03_prefix_determinism", "CifModel.C03_result",
            "CifModel.C03_reported_partial", "CifModel.C03_reported", "CifModel.C03_reported_full", "CifModel.Model.Parser.parseInternal_die", "CifModel.C03_consistent_after", "CifModel.C03_consistent_after_fresh",
            "CifModel.C03_consistent_iff", "CifModel.C03_consistent_container", "CifModel.C03_packets_rectangular", "CifModel.C03_rectangular_iff", "CifModel.C03_rectangular_container", "CifModel.Model.Parser.parse_okR", "CifModel.Model.Parser.packetsLoop_presR",
            "CifModel.C03_parser_trace", "CifModel.C03_store_ops_documented", "CifModel.C03_store_step_mkBlock", "CifModel.C03_parser_store_refines_partial", "CifModel.C03_consistent_after_every_call", "CifModel.C03_set_value_calls_documented", "CifModel.C03_add_packet_calls_documented", "CifModel.C03_create_calls_documented", "CifModel.Model.Parser.trace_prefix_okR", "CifModel.Model.Parser.trace_calls_docOk",
            "CifModel.Model.Parser.parseT_out", "CifModel.Model.Parser.parse_replay", "CifModel.Model.Parser.storeTrace_wf", "CifModel.Model.Parser.setValueC_spec", "CifModel.Model.Parser.addPkt_spec", "CifModel.Model.Parser.parse_ok", "CifModel.Model.Parser.updIn_ok",
            "CifModel.C03_die_is_first", "CifModel.C03_accept_all", "CifModel.C03_codes_nonzero",
            "CifModel.C03_fuel_suffices", "CifModel.C03_nofuel_only_from_callback", "CifModel.C03_callback_lines",
            "CifModel.C03_scanner_lines_monotone",
            "CifModel.Model.Parser.parse_spec", "CifModel.Model.Parser.blocksLoop_det", "CifModel.Model.Lexer.nextToken_detl"]
GEN = ["ErrCodes", "CharClass", "ParseConsts"]
FAMILIES = ["parse", "parsebytes"]
TRUSTED_BASE = [
    "Lean 4.33.0 kernel; axioms propext, Classical.choice, Quot.sound only",
    "lean/CifModel/Model/Parser.lean (integrated parser: cif_parse_internal after the version decision, parse_cif … parse_value, every "
    "error_callback call site of the productions with its recovery, result propagation, storage at the level of the documented "
    "data model) is trusted only as far as the `parse` correspondence observes it: return value, (code, line) of every callback, "
    "canonical dump of the target — CIF 2.0 / 1.1, all option records, accept-all / die / k-th / by-code policies incl. negative answers",
    "Model/Lexer.lean (group gD), Model/Decode.lean (gE), Model/Analyze.lean setQuoted (gA), Model/Names.lean (gA), Model/Fill.lean (gC) "
    "are used unchanged",
    "harness/x_parse.c (drives the real cif_parse_internal via #include, scanner_s set up as cif_parse does, UTF-16 character "
    "source) and tools/gen/parse.py + parsedoc.py (generator, implementation-level oracle restating C03)",
]
ASSUMPTIONS = [
    "no handler callbacks (cif_handler_tp all NULL — the default); handler interplay is property C15",
    "memory exhaustion and I/O failure are not modelled (C17); byte decoding (ICU) is not modelled: the character source delivers "
    "UTF-16 code units",
    "extra whitespace / end-of-line characters are modelled by the class-preserving substitution c -> TAB / LF (exact for every "
    "observable except the identity of such a unit inside a delimited string; the one place where that identity decides a report — a "
    "quoted TABLE KEY holding such a unit is refused by cif_value_set_item_by_key and reported as CIF_INVALID_INDEX — is left to the "
    "implementation-level oracle: the comparison with the model is skipped for requests where an extra character occurs and the "
    "implementation reports 73; tools/gen/parsedoc.py extra_in_key)",
    "names are normalised by a parameter `norm`; the driver instantiates ASCII case folding (exact for the generated alphabets)",
]
PARTIAL = [
    "C03_reported_full is PROVED without exception: every option record, every callback policy, every initial target, every input — a "
    "parse that fails has reported at least one error.  C03_reported (Lemmas/ParserQuiet: the seven 'should not happen' exits — "
    "CIF_INTERNAL_ERROR x4, CIF_INVALID_ITEMNAME x2, CIF_DUP_ITEMNAME — are unreachable before the first report; CIF_INVALID_INDEX is "
    "itself reported since parser.c 8375485, no `fail` site with that code is left) + C03_fuel_suffices_accept_all (a parse with an "
    "empty log is the accept-all parse, which never ends with the out-of-fuel marker).",
    "C03_total: totality is by construction (Lean's termination check) and the fuel is proved sufficient: C03_fuel_suffices (Props/C03Extra.lean, "
    "potential argument over the lexer and the productions) — the out-of-fuel marker 1001 is never the result unless the callback itself answers 1001 "
    "(C03_nofuel_only_from_callback)",
    "C03_callback_lines is proved (Props/C03Extra.lean): every report of every parse has line >= 1, for every policy, completed or aborted; "
    "C03_scanner_lines_monotone is the scanner-level form",
    "C03_consistent_after / C03_packets_rectangular are proved about the model's target (the documented data model, CifModel.Cif): block codes / "
    "frame codes distinct after normalisation, every normalised item name once per container, at most one scalar loop, at most one packet "
    "in a scalar loop, AND (C03_packets_rectangular, Lemmas/ParserRect: the column bookkeeping of parse_loop_packets with dropped duplicate / "
    "invalid header names, the wrap of the column index and the CIF_PARTIAL_PACKET padding) every packet of every loop has exactly as many "
    "values as its loop has names — after every parse, also an aborted one, from every consistent (and rectangular) initial target.  "
    "That the REAL store holds this content is observed: the executor walks, writes, modifies and destroys the real CIF after every parse "
    "under ASan/UBSan, and its dump is compared with the model's.",
    "parser model -> store model (Props/C03Store.lean): the real parser calls the store API; Model/ParserTrace.lean is the parser model with "
    "every successful mutating call recorded (cif_create_block(_internal), cif_container_create_frame(_internal), cif_container_set_value, "
    "cif_container_create_loop, cif_loop_add_packet, cif_container_prune).  PROVED for every parse (any policy, input, options, initial "
    "target, also aborted): forgetting the trace gives Model.Parser.parse exactly and the target is the replay of the recorded calls "
    "(C03_parser_trace); the effect of a recorded set_value / add_packet / create_block / create_frame is the DOCUMENTED function of "
    "Spec/DataModel on consistent rectangular containers (C03_store_ops_documented — uses C03_packets_rectangular and uniqueness of names); "
    "the target is consistent and rectangular after EVERY recorded call, not only at the end (C03_consistent_after_every_call: every prefix "
    "of the trace; Lemmas/ParserTraceInv: the Hoare logic of the consistency proof once more for the instrumented productions), so every "
    "cif_container_set_value of every parse IS the documented function in the state in which it is made (C03_set_value_calls_documented), "
    "every cif_loop_add_packet is a SUCCESSFUL call of Loop.specAddPacket on the last loop of its container with the packet names -> values "
    "(C03_add_packet_calls_documented), every block / save-frame creation a successful call of specCreateBlock / Container.specCreateFrame "
    "(C03_create_calls_documented; validation waived for the lenient creations) — Lemmas/ParserTraceInv.trace_calls_docOk.  For "
    "cif_container_create_loop and cif_container_prune Spec/DataModel has no function; their premises (names not in use, pairwise distinct, "
    "not empty) are part of SOp.docOk; "
    "block creation composes with the store model's createBlock (C03_store_step_mkBlock, via C04_refines_create_block).  [SUPERSEDED by the gX item at the end of this list: the statement is now a theorem] Formerly not proved: "
    "C03_parser_store_refines_full (a def) — the recorded calls translated into a Store.Op history (Model/ParserStoreOps.storeOps) and run "
    "through Store.step from a new CIF all return CIF_OK and end in a store whose abstraction Store.abs IS the parser model's CIF.  It is "
    "EXECUTED by the model driver on every request of family parse with a target (fresh: about 6 100 per quick run; pre-filled, the "
    "history being cifOps(pre-existing content) ++ trace: about 1 250; every recovery path, aborted parses; exact equality incl. "
    "enumeration orders; any failure is a model/implementation disagreement); lenient creations (invalid codes accepted after the "
    "report, the anonymous block) are not expressible as Store.Op and are skipped there (about 430 per run).  What a proof "
    "needs: the lift of the container-local refinement lemmas of C04 (absLoops d cid) to the tree Store.abs at a path (save frames have "
    "unique parents), the transaction brackets of the API wrappers incl. set_value's add_scalar composition, and the handle tables of "
    "Store.step; uniqueness of block ids / block names, which C04's Inv does not contain",
    "family parse observes the store calls of the REAL parser (function-like macros around #include \"parser.c\" in harness/x_parse.c: "
    "calls that return CIF_OK) as six counters and as the SEQUENCE of calls with a digest of the name argument (length of the code / "
    "data name, number of loop names) and compares both with the model's trace on every request; values and container arguments are "
    "observed only through the final dump.  Price: a rewrite of parser.c that changes the sequence of successful store calls without "
    "changing the content is reported as a broken correspondence (no-failing-input-found)",
    "memory safety, undefined behaviour and byte decoding of the C are runtime-observed only (families parse and parsebytes).",
]
LEVEL_TEXT = ("Theorems about the executable integrated parser model (every input string, every option record, every callback "
              "policy as an arbitrary function of invocation index and report) + differential correspondence of the model with "
              "the real cif_parse_internal on a malformed stream, with an implementation-level oracle that restates C03.")
LEVEL_NOTE = ("Partial: memory safety / UB of the C and byte decoding are runtime-observed (ASan/UBSan on every request of the "
              "malformed stream); see PARTIAL for the theorem-level gaps.")
TECHNIQUE = "Lean 4 proof about an executable model in a reporting monad + differential correspondence with an independent oracle"

# ---- group gV: the byte-level character source ----
LEAN_MODULES += ["CifModel.Props.C08Stream"]
REQUIRED += ["CifModel.C03_ustream_total", "CifModel.C03_ustream_refusal_is_last", "CifModel.C03_cex_source_minus_one"]
FAMILIES += ["ustream"]
PARTIAL += [
    "byte level: C03_ustream_total (every ustream_read_chars call of the model returns, for any bytes, request sizes and callback "
    "policy, for every converter meeting `Laws`; UTF-8 / UTF-16 instances proved) and C03_ustream_refusal_is_last; the real ICU "
    "converter's termination is observed by family `ustream` (per-case time limit), not proved; finding F-source-minus-one is "
    "modelled as it is (C03_cex_source_minus_one): ustream_read_chars returns -1 with error code -1",
]

# ---- group gX: composition parser model -> store model over whole histories; review rA findings on C03 ----
LEAN_MODULES += ["CifModel.Lemmas.ParserStoreSim", "CifModel.Lemmas.ParserStoreRun", "CifModel.Lemmas.ParserStoreSimF",
                 "CifModel.Lemmas.ParserStoreRunF", "CifModel.Lemmas.ParserTraceShape", "CifModel.Props.ReviewRC03"]
REQUIRED += ["CifModel.C03_parser_store_refines", "CifModel.C03_storeOps_total", "CifModel.C03_parser_store_refines_total",
             "CifModel.ParserSimF.storeOps_total", "CifModel.ParserSimF.prefix_rep", "CifModel.ParserSimF.parse_leaves_rep",
             "CifModel.ParserSimF.contAt_unique", "CifModel.ParserSimF.contAt_addFrame_inv", "CifModel.ParserSimF.contAt_addBlock_inv",
             "CifModel.C03_parse_is_store_history", "CifModel.C03_store_inv_after_parse",
             "CifModel.C03_parser_store_refines_from_rep",
             "CifModel.C03_parser_store_refines_covered_partial", "CifModel.C03_parser_store_refines_noframes_partial",
             "CifModel.C03_parser_store_refines_from_rep_partial",
             "CifModel.C03_parse_is_store_history_partial", "CifModel.C03_store_inv_after_parse_partial",
             "CifModel.C03_calls_resolve", "CifModel.C03_add_packet_calls_succeed", "CifModel.C03_create_frame_calls_succeed",
             "CifModel.C03_set_value_calls_succeed", "CifModel.C03_create_loop_calls_succeed", "CifModel.C03_prune_calls_documented",
             "CifModel.Model.Parser.trace_paths_resolve", "CifModel.Model.Parser.trace_shaped", "CifModel.Model.Parser.res_apply",
             "CifModel.ParserSimF.tree_updG", "CifModel.ParserSimF.tree_addFrame", "CifModel.ParserSimF.tree_addBlock",
             "CifModel.ParserSimF.below_chain", "CifModel.ParserSimF.sibling_disjoint", "CifModel.ParserSimF.getIn_cont",
             "CifModel.ParserSimF.sim_mkBlock", "CifModel.ParserSimF.sim_mkFrame", "CifModel.ParserSimF.sim_prune",
             "CifModel.ParserSimF.sim_mkLoop", "CifModel.ParserSimF.sim_addPkt", "CifModel.ParserSimF.sim_setVal",
             "CifModel.ParserSimF.rep_step", "CifModel.ParserSimF.run_sim", "CifModel.ParserSimF.parse_store_sim",
             "CifModel.ParserSimF.parse_store_sim_from",
             "CifModel.ParserSim.tree_upd", "CifModel.ParserSim.rep_step", "CifModel.ParserSim.run_sim",
             "CifModel.ParserSim.parse_store_sim", "CifModel.ParserSim.storeOps_total", "CifModel.ParserSim.parse_store_sim_from",
             "CifModel.ParserSim.parse_leaves_rep", "CifModel.ParserSim.prefix_rep",
             "CifModel.Model.Parser.mkLoop_spec", "CifModel.Model.Parser.prune_spec'"]
PARTIAL += [
    "group gX — C03_parser_store_refines_full is now PROVED: theorem C03_parser_store_refines (Props/C03Store.lean) — for EVERY option "
    "record, callback policy and input (save frames at any depth, lenient creations — Store.Op.mkBlock / mkFrame carry the `lenient` flag of "
    "cif_create_block_internal / cif_container_create_frame_internal —, every recovery path, completed or aborted parses) the recorded "
    "store calls, translated into a Store.Op history (storeOps) and run through Store.step from the empty world, all return CIF_OK and end in "
    "a store whose Store.abs IS the parser model's CIF.  C03_parse_is_store_history: the history is in contract (C04_refines_from_start "
    "applies, and with it C04 / C05 / C06 / C07's theorems about in-contract histories); C03_store_inv_after_parse: afterwards WOk / Inv / "
    "autocommit hold and the store's own abstraction is OkCif and RectCif.  Method: each call on the documented model with identities "
    "(Spec/StoreSpec AState) against the tree — Lemmas/ParserStoreSimF: ContAt (path -> container id), tree_updG (the container with id t "
    "occurs ONCE in the tree: a frame has one parent, parent < child — below_chain, sibling_disjoint, root_disjoint), tree_addFrame, "
    "sim_mkBlock / sim_mkFrame / sim_prune / sim_mkLoop / sim_addPkt / sim_setVal (set_value in its three cases) —, lifted to Store.step "
    "through C04_refines (Lemmas/ParserStoreRunF: handle tables, Rep, rep_step, run_sim; Store.step is never unfolded).  The frame-free "
    "development (ParserSim, C03_…_partial theorems) additionally proves that the trace HAS a translation (storeOps_total) and that every "
    "intermediate state is represented (prefix_rep).  C03_storeOps_total / C03_parser_store_refines_total: the trace of EVERY parse HAS a translation "
    "(every call finds the handle its container got: C03_calls_resolve, inversion of the creations, uniqueness of a container's path), so no "
    "hypothesis is left for a parse into a new CIF.  STILL PARTIAL: pre-existing targets are covered as "
    "REPRESENTED worlds (C03_parser_store_refines_from_rep: from any world satisfying ParserSimF.Rep — e.g. the one an earlier parse left, "
    "ParserSim.parse_leaves_rep); no theorem builds such a world from an arbitrary consistent Cif (the driver runs cifOps(pre) ++ trace: "
    "sto=ok on every request).",
    "review rA finding A.1 (repaired): C03_calls_resolve / Model.Parser.trace_paths_resolve — EVERY recorded call of EVERY parse (any initial "
    "target) addresses a container that exists in the state in which the call is made (Lemmas/ParserTraceShape: a second Hoare logic over the "
    "instrumented productions whose pre/postconditions see the recorded calls; resolution is monotone under every store call); "
    "C03_add_packet_calls_succeed, C03_create_frame_calls_succeed, C03_set_value_calls_succeed, C03_create_loop_calls_succeed, "
    "C03_prune_calls_documented restate the `…_calls_documented` conclusions WITHOUT the guard `getIn … = some cc` (the older statements are "
    "kept unchanged).  SOp.docOk now also says: a non-lenient creation has a valid code, the names of a new loop are valid.  "
    "Model.Parser.trace_shaped: every cif_loop_add_packet directly follows the create_loop / add_packet of the same container.",
    "review rA, finding 3: `consistent` (OkCif / RectCif) tolerates a loop WITHOUT packets: an ABORTED parse (callback stop or failure exit "
    "inside a loop body) skips cif_container_prune and leaves the loop it was filling packet-less; cif_walk / cif_write answer "
    "CIF_EMPTY_LOOP on such a target (observed and tolerated by the implementation-level oracle exactly then).  No theorem says that a "
    "NON-aborted parse leaves no packet-less loop.  Finding 4: the pre-existing target of C03_consistent_after is a free tree satisfying "
    "OkCif / RectCif; that a store reached by API calls shows such a tree is proved for stores built by a parse "
    "(C03_store_inv_after_parse), there is no general `Store.Inv s.db -> OkCif (abs s.db)`.",
]
# ---- independent review rA (notes/review/rA-review.md): CifModel.Props.ReviewRC03 is listed in group gX's LEAN_MODULES above ----
