PROPERTY = "C03"
LEVEL = "proof"
LEAN_MODULES = ["CifModel.Props.C03", "CifModel.Props.C03Extra", "CifModel.Lemmas.ParserTop", "CifModel.Lemmas.ParserDetProd", "CifModel.Lemmas.ParserDetLex", "CifModel.Lemmas.ParserDet"]
REQUIRED = ["CifModel.C03_total", "CifModel.C03_clamp", "CifModel.C03_report_site", "CifModel.C03_prefix_determinism", "CifModel.C03_result",
            "CifModel.C03_reported_partial", "CifModel.C03_die_is_first", "CifModel.C03_accept_all", "CifModel.C03_codes_nonzero",
            "CifModel.C03_fuel_suffices", "CifModel.C03_nofuel_only_from_callback", "CifModel.C03_callback_lines",
            "CifModel.C03_scanner_lines_monotone", "CifModel.Model.Parser.parse_spec", "CifModel.Model.Parser.blocksLoop_det", "CifModel.Model.Lexer.nextToken_detl"]
GEN = ["ErrCodes", "CharClass", "ParseConsts"]
FAMILIES = ["parse", "parsebytes"]
TRUSTED_BASE = [
    "Lean 4.33.0 kernel; axioms propext, Classical.choice, Quot.sound only",
    "lean/CifModel/Model/Parser.lean (integrated parser: cif_parse_internal after the version decision, parse_cif … parse_value, every "
    "error_callback call site of the productions with its recovery, result propagation, storage at the level of the documented "
    "data model) is trusted only as far as the `parse` correspondence observes it: return value, (code, line) of every callback, "
    "canonical dump of the target — CIF 2.0 / 1.1, all option records, accept-all / die / k-th / by-code policies incl. negative answers",
    "Model/Lexer.lean (group gD), Model/Decode.lean (gE), Model/Analyze.lean setQuoted (gA), Model/Names.lean (gA), Model/Fill.lean (gC) "
    "are used unchanged",
    "harness/x_parse.c (drives the real cif_parse_internal via #include, scanner_s set up as cif_parse does, UTF-16 character "
    "source) and tools/gen/parse.py + parsedoc.py (generator, implementation-level oracle restating C03)",
]
ASSUMPTIONS = [
    "no handler callbacks (cif_handler_tp all NULL — the default); handler interplay is property C15",
    "memory exhaustion and I/O failure are not modelled (C17); byte decoding (ICU) is not modelled: the character source delivers "
    "UTF-16 code units",
    "extra whitespace / end-of-line characters are modelled by the class-preserving substitution c -> TAB / LF (exact for every "
    "observable except the identity of such a unit inside a delimited string)",
    "names are normalised by a parameter `norm`; the driver instantiates ASCII case folding (exact for the generated alphabets)",
]
PARTIAL = [
    "C03_reported is proved as C03_reported_partial: a failure whose value is not one of the five codes the model can return on its "
    "own (CIF_INTERNAL_ERROR, CIF_INVALID_INDEX, CIF_INVALID_ITEMNAME, CIF_DUP_ITEMNAME from cif_packet_create, the model's out-of-fuel "
    "marker) has reported at least one error.  Missing for C03_reported_full: that those `fail` sites are unreachable (INTERNAL_ERROR, "
    "cif_packet_create codes: needs the invariant that retained loop-header names are valid and distinct) or preceded by a report "
    "(INVALID_INDEX: needs the scanner fact that every disallowed unit of a token text was reported).  Observed instead by the "
    "oracle of family `parse` on every request (never fails without a report).",
    "C03_total: totality is by construction (Lean's termination check); the fuel-suffices lemma (the out-of-fuel marker 1001 is never "
    "the result for the fuel 2*|input|+16 that `parse` passes) is NOT proved — 1001 has never been observed in the correspondence.",
    "C03_callback_lines (every report has line >= 1) is not proved; checked by the oracle on every report of every request.",
    "C03_consistent_after (store invariant) is not stated in Lean: the model stores into the abstract data model; the executor "
    "walks, writes, modifies and destroys the real CIF after every parse under ASan/UBSan.",
    "memory safety, undefined behaviour and byte decoding of the C are runtime-observed only (families parse and parsebytes).",
]
LEVEL_TEXT = ("Theorems about the executable integrated parser model (every input string, every option record, every callback "
              "policy as an arbitrary function of invocation index and report) + differential correspondence of the model with "
              "the real cif_parse_internal on a malformed stream, with an implementation-level oracle that restates C03.")
LEVEL_NOTE = ("Partial: memory safety / UB of the C and byte decoding are runtime-observed (ASan/UBSan on every request of the "
              "malformed stream); see PARTIAL for the theorem-level gaps.")
TECHNIQUE = "Lean 4 proof about an executable model in a reporting monad + differential correspondence with an independent oracle"
