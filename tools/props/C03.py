PROPERTY = "C03"
LEVEL = "proof"
LEAN_MODULES = ["CifModel.Props.C03"]
REQUIRED = ["CifModel.C03_clamp", "CifModel.C03_report_site"]
GEN = ["ErrCodes", "CharClass", "ParseConsts"]
FAMILIES = ["parse", "parsebytes"]
TRUSTED_BASE = [
    "Lean 4.33.0 kernel; axioms propext, Classical.choice, Quot.sound only",
    "lean/CifModel/Model/Parser.lean (integrated parser: cif_parse_internal after the version decision, parse_cif … parse_value, every "
    "error_callback call site of the productions with its recovery, result propagation, storage at the level of the documented "
    "data model) is trusted only as far as the `parse` correspondence observes it: return value, (code, line) of every callback, "
    "canonical dump of the target — CIF 2.0 / 1.1, all option records, accept-all / die / k-th / by-code policies incl. negative answers",
    "Model/Lexer.lean (group gD), Model/Decode.lean (gE), Model/Analyze.lean setQuoted (gA), Model/Names.lean (gA), Model/Fill.lean (gC) "
    "are used unchanged",
    "harness/x_parse.c (drives the real cif_parse_internal via #include, scanner_s set up as cif_parse does, UTF-16 character "
    "source) and tools/gen/parse.py + parsedoc.py (generator, implementation-level oracle restating C03)",
]
ASSUMPTIONS = [
    "no handler callbacks (cif_handler_tp all NULL — the default); handler interplay is property C15",
    "memory exhaustion and I/O failure are not modelled (C17); byte decoding (ICU) is not modelled: the character source delivers "
    "UTF-16 code units",
    "extra whitespace / end-of-line characters are modelled by the class-preserving substitution c -> TAB / LF (exact for every "
    "observable except the identity of such a unit inside a delimited string)",
    "names are normalised by a parameter `norm`; the driver instantiates ASCII case folding (exact for the generated alphabets)",
]
PARTIAL = []
LEVEL_TEXT = ("Theorems about the executable integrated parser model (every input string, every option record, every callback "
              "policy as an arbitrary function of invocation index and report) + differential correspondence of the model with "
              "the real cif_parse_internal on a malformed stream, with an implementation-level oracle that restates C03.")
LEVEL_NOTE = ("Partial: memory safety / UB of the C and byte decoding are runtime-observed (ASan/UBSan on every request of the "
              "malformed stream); see PARTIAL for the theorem-level gaps.")
TECHNIQUE = "Lean 4 proof about an executable model in a reporting monad + differential correspondence with an independent oracle"
