"""
translate_schema.py — Gen/Schema.lean: the facts of the relational schema and of the SQL / transaction protocol that the
store model (Model/Store.lean) assumes, re-extracted from the CURRENT sources on every run:

  * src/internal/schema.h (`schema_statements[]`, what is compiled) cross-checked against misc/cif_schema.sql
      tables: columns, NOT NULL, primary key, AUTOINCREMENT, UNIQUE, foreign keys with ON DELETE CASCADE, CHECKs
      triggers: timing, event, table, WHEN clause, body, raise(ABORT, msg)
      indexes and views (kept as normalised text)
  * src/internal/sql.h: every `#define <NAME>_SQL "<text>"`
  * src/container.c / src/loop.c: the message strings the C compares sqlite3_errmsg() against
  * src/{cif,container,loop,pktitr}.c: per function, the transaction macros it uses, in source order
  * src/internal/utils.h: the expansion of the transaction macros (which SQL each one executes; NESTTX choice)

All text is normalised (lower-case keywords are already lower-case in the sources; runs of white space → one space)
and emitted as `List Nat` (character codes) so that `decide` never sees a `String`.
Anything that does not parse raises an exception, which translate.run() reports as a broken tie.
"""
import os, re


class SchemaError(Exception):
    pass


def _read(p):
    with open(p, encoding="utf-8", errors="replace") as f:
        return f.read()


def _units(s):
    return "[" + ", ".join(str(ord(c)) for c in s) + "]"


def _ws(s):
    return re.sub(r"\s+", " ", s).strip()


def _c_strings(text):
    """concatenate adjacent C string literals of `text` (no escapes other than \\" \\\\ \\n expected)"""
    out = []
    for m in re.finditer(r'"((?:[^"\\]|\\.)*)"', text):
        s = m.group(1)
        s = s.replace('\\"', '"').replace("\\n", "\n").replace("\\\\", "\\")
        out.append(s)
    return "".join(out)


def schema_statements_from_h(repo):
    h = _read(os.path.join(repo, "src", "internal", "schema.h"))
    m = re.search(r"schema_statements\s*\[\s*\]\s*=\s*\{(.*?)\n\s*NULL\s*\}\s*;", h, re.S)
    if not m:
        m = re.search(r"schema_statements\s*\[\s*\]\s*=\s*\{(.*)\}\s*;", h, re.S)
    if not m:
        raise SchemaError("schema.h: schema_statements[] not found")
    body = m.group(1)
    stmts = []
    # statements are separated by a comma on its own line
    for part in re.split(r"\n\s*,\s*\n", body):
        s = _ws(_c_strings(part))
        if s:
            stmts.append(s)
    if len(stmts) < 8:
        raise SchemaError("schema.h: only %d statements" % len(stmts))
    return stmts


def schema_statements_from_sql(repo):
    src = _read(os.path.join(repo, "misc", "cif_schema.sql"))
    lines = [l for l in src.splitlines() if not l.strip().startswith("--")]
    text = "\n".join(lines)
    stmts, cur, in_block = [], [], False
    for line in text.splitlines():
        if not line.strip():
            continue
        cur.append(line)
        low = line.lower()
        if re.search(r"\bbegin\b", low) and ";" not in low:
            in_block = True
        if in_block:
            if re.search(r"\bend\s*;\s*$", low):
                in_block = False
                stmts.append(_ws("\n".join(cur)).rstrip(";").strip())
                cur = []
        elif line.rstrip().endswith(";"):
            stmts.append(_ws("\n".join(cur)).rstrip(";").strip())
            cur = []
    if cur:
        raise SchemaError("cif_schema.sql: trailing text without terminator: %r" % cur[:2])
    return stmts


def _split_top(s, sep=","):
    parts, depth, cur = [], 0, []
    for ch in s:
        if ch == "(":
            depth += 1
        elif ch == ")":
            depth -= 1
        if ch == sep and depth == 0:
            parts.append("".join(cur).strip())
            cur = []
        else:
            cur.append(ch)
    if "".join(cur).strip():
        parts.append("".join(cur).strip())
    return parts


def _cols(s):
    return [c.strip() for c in s.split(",")]


def parse_table(stmt):
    m = re.fullmatch(r"create table (\w+) \((.*)\)", stmt, re.S)
    if not m:
        raise SchemaError("cannot parse table statement: %s" % stmt[:60])
    name, body = m.group(1), m.group(2)
    t = {"name": name, "cols": [], "notnull": [], "pk": [], "autoinc": False, "uniques": [], "fks": [], "checks": [],
         "defaults": []}
    for part in _split_top(body):
        p = _ws(part)
        mm = re.fullmatch(r"primary key \(([^)]*)\)", p)
        if mm:
            if t["pk"]:
                raise SchemaError("%s: two primary keys" % name)
            t["pk"] = _cols(mm.group(1))
            continue
        mm = re.fullmatch(r"unique \(([^)]*)\)", p)
        if mm:
            t["uniques"].append(_cols(mm.group(1)))
            continue
        mm = re.fullmatch(r"foreign key \(([^)]*)\) references (\w+)\s*\(([^)]*)\)(.*)", p)
        if mm:
            tail = _ws(mm.group(4))
            if tail not in ("", "on delete cascade"):
                raise SchemaError("%s: unknown foreign key action %r" % (name, tail))
            t["fks"].append((_cols(mm.group(1)), mm.group(2), _cols(mm.group(3)), tail == "on delete cascade"))
            continue
        mm = re.fullmatch(r"check \((.*)\)", p, re.S)
        if mm:
            t["checks"].append(_ws(mm.group(1)))
            continue
        mm = re.fullmatch(r"(\w+) ([a-z]+(?:\(\d+\))?)(.*)", p)
        if not mm:
            raise SchemaError("%s: cannot parse column definition %r" % (name, p))
        col, rest = mm.group(1), _ws(mm.group(3))
        t["cols"].append(col)
        if "primary key" in rest:
            if t["pk"]:
                raise SchemaError("%s: two primary keys" % name)
            t["pk"] = [col]
            rest = rest.replace("primary key", "")
        if "autoincrement" in rest:
            t["autoinc"] = True
            rest = rest.replace("autoincrement", "")
        if "not null" in rest:
            t["notnull"].append(col)
            rest = rest.replace("not null", "")
        mm2 = re.search(r"default (\S+)", rest)
        if mm2:
            t["defaults"].append((col, mm2.group(1)))
            rest = rest.replace(mm2.group(0), "")
        if _ws(rest):
            raise SchemaError("%s.%s: unknown column constraint %r" % (name, col, rest))
    return t


def parse_trigger(stmt):
    m = re.fullmatch(r"create trigger (\w+) (before|after|instead of) (insert|delete|update(?: of \w+)?) on (\w+)"
                     r"(?: when (.*?))? begin (.*) end", stmt, re.S)
    if not m:
        raise SchemaError("cannot parse trigger statement: %s" % stmt[:70])
    body = _ws(m.group(6))
    mm = re.search(r"raise\s*\(\s*(\w+)\s*,\s*'([^']*)'\s*\)", body)
    return {"name": m.group(1), "timing": m.group(2), "event": m.group(3), "table": m.group(4),
            "when": _ws(m.group(5) or ""), "body": body, "action": mm.group(1).lower() if mm else "",
            "msg": mm.group(2) if mm else None}


def c_string_constant(repo, rel, name):
    src = _read(os.path.join(repo, rel))
    m = re.search(r"static\s+const\s+char\s+" + name + r"\s*\[\s*(\d*)\s*\]\s*=\s*((?:\"(?:[^\"\\]|\\.)*\"\s*)+);", src)
    if not m:
        raise SchemaError("%s: constant %s not found" % (rel, name))
    s = _c_strings(m.group(2))
    if m.group(1) and int(m.group(1)) < len(s) + 1:
        raise SchemaError("%s: %s[%s] truncates its initialiser" % (rel, name, m.group(1)))
    return s


def sql_macros(repo):
    src = _read(os.path.join(repo, "src", "internal", "sql.h"))
    src = re.sub(r"/\*.*?\*/", "", src, flags=re.S)
    src = src.replace("\\\n", " ")
    out = []
    for m in re.finditer(r"^#define[ \t]+(\w+_SQL)[ \t]+(.*)$", src, re.M):
        out.append((m.group(1), _ws(_c_strings(m.group(2)))))
    if len(out) < 25:
        raise SchemaError("sql.h: only %d SQL macros" % len(out))
    return out


TX_WORDS = ["BEGIN_NESTTX", "COMMIT_NESTTX", "ROLLBACK_NESTTX", "ROLLBACK_TO", "BEGIN", "COMMIT", "ROLLBACK", "SAVE", "RELEASE"]
TX_RE = re.compile(r"\b(" + "|".join(TX_WORDS) + r")\s*\(")
MODELLED_FILES = ["cif.c", "container.c", "loop.c", "pktitr.c"]


def strip_c_comments(src):
    src = re.sub(r"/\*.*?\*/", lambda m: re.sub(r"[^\n]", " ", m.group(0)), src, flags=re.S)
    return re.sub(r'"(?:[^"\\\n]|\\.)*"', '""', src)


def functions_of(src):
    """(name, body) for every function definition at top level (brace matching on comment-free text)"""
    out = []
    for m in re.finditer(r"^(?:static\s+)?(?:int|void)\s+(\w+)\s*\(([^;{]*?)\)\s*\{", src, re.M):
        i = m.end()
        depth = 1
        while depth and i < len(src):
            if src[i] == "{":
                depth += 1
            elif src[i] == "}":
                depth -= 1
            i += 1
        if depth:
            raise SchemaError("unbalanced braces in function %s" % m.group(1))
        out.append((m.group(1), src[m.end():i]))
    return out


def tx_macro_table(repo):
    rows = []
    for f in MODELLED_FILES:
        src = strip_c_comments(_read(os.path.join(repo, "src", f)))
        for name, body in functions_of(src):
            uses = [m.group(1) for m in TX_RE.finditer(body)]
            if uses:
                rows.append((name, uses))
    if len(rows) < 10:
        raise SchemaError("only %d transaction-bearing functions found" % len(rows))
    return rows


def tx_macro_defs(repo):
    src = _read(os.path.join(repo, "src", "internal", "utils.h")).replace("\\\n", " ")
    out = []
    for w in TX_WORDS:
        m = re.search(r"^#define[ \t]+" + w + r"\(db\)[ \t]+(.*)$", src, re.M)
        if not m:
            raise SchemaError("utils.h: macro %s not found" % w)
        out.append((w, _ws(m.group(1))))
    return out


def gen_Schema(repo):
    hs = schema_statements_from_h(repo)
    ss = schema_statements_from_sql(repo)
    if [_ws(x) for x in hs] != [_ws(x) for x in ss]:
        for a, b in zip(hs, ss):
            if _ws(a) != _ws(b):
                raise SchemaError("schema.h is not what cif_schema.sql says: %r vs %r" % (a[:80], b[:80]))
        raise SchemaError("schema.h and cif_schema.sql have different numbers of statements (%d, %d)" % (len(hs), len(ss)))
    tables, triggers, others = [], [], []
    for s in hs:
        if s.startswith("create table "):
            tables.append(parse_table(s))
        elif s.startswith("create trigger "):
            triggers.append(parse_trigger(s))
        elif s.startswith("create index ") or s.startswith("create view "):
            others.append(s)
        else:
            raise SchemaError("unknown kind of schema statement: %s" % s[:60])
    L = ["/-",
         "  GENERATED by tools/translate_schema.py from /repo's working tree — do not edit.",
         "  Source: src/internal/schema.h (= misc/cif_schema.sql), src/internal/sql.h, src/internal/utils.h,",
         "          src/cif.c, src/container.c, src/loop.c, src/pktitr.c",
         "-/",
         "namespace CifModel.Gen.Schema", "",
         "abbrev S := List Nat   -- text as character codes", "",
         "structure FK where", "  cols : List S", "  refTable : S", "  refCols : List S", "  cascade : Bool",
         "deriving DecidableEq, Repr", "",
         "structure Table where", "  name : S", "  cols : List S", "  notNull : List S", "  pk : List S", "  autoinc : Bool",
         "  uniques : List (List S)", "  fks : List FK", "  checks : List S", "  defaults : List (S × S)",
         "deriving DecidableEq, Repr", "",
         "structure Trigger where", "  name : S", "  timing : S", "  event : S", "  table : S", "  whenClause : S", "  body : S",
         "  action : S", "  msg : Option S",
         "deriving DecidableEq, Repr", ""]

    def lst(xs):
        return "[" + ", ".join(xs) + "]"

    L.append("def tables : List Table := [")
    rows = []
    for t in tables:
        fks = lst("{ cols := %s, refTable := %s, refCols := %s, cascade := %s }" % (
            lst(_units(c) for c in f[0]), _units(f[1]), lst(_units(c) for c in f[2]), "true" if f[3] else "false") for f in t["fks"])
        rows.append("  { name := %s,\n    cols := %s,\n    notNull := %s,\n    pk := %s,\n    autoinc := %s,\n    uniques := %s,\n    fks := %s,\n    checks := %s,\n    defaults := %s }" % (
            _units(t["name"]), lst(_units(c) for c in t["cols"]), lst(_units(c) for c in t["notnull"]),
            lst(_units(c) for c in t["pk"]), "true" if t["autoinc"] else "false",
            lst(lst(_units(c) for c in u) for u in t["uniques"]), fks, lst(_units(c) for c in t["checks"]),
            lst("(%s, %s)" % (_units(a), _units(b)) for a, b in t["defaults"])))
    L.append(",\n".join(rows))
    L.append("]")
    L.append("")
    L.append("def triggers : List Trigger := [")
    rows = []
    for t in triggers:
        rows.append("  { name := %s,\n    timing := %s,\n    event := %s,\n    table := %s,\n    whenClause := %s,\n    body := %s,\n    action := %s,\n    msg := %s }" % (
            _units(t["name"]), _units(t["timing"]), _units(t["event"]), _units(t["table"]), _units(t["when"]), _units(t["body"]),
            _units(t["action"]), ("some " + _units(t["msg"])) if t["msg"] is not None else "none"))
    L.append(",\n".join(rows))
    L.append("]")
    L.append("")
    L.append("/-- `create index` / `create view` statements, normalised text -/")
    L.append("def others : List S := [")
    L.append(",\n".join("  " + _units(s) for s in others))
    L.append("]")
    L.append("")
    L.append("/-- the message container.c compares sqlite3_errmsg() with after a failed loop insertion (`scalar_errmsg`) -/")
    L.append("def scalarErrmsg : S := %s" % _units(c_string_constant(repo, "src/container.c", "scalar_errmsg")))
    L.append("/-- the message loop.c compares sqlite3_errmsg() with after a failed row-number update (`MULTIPLE_SCALAR_MESSAGE`) -/")
    L.append("def multipleScalarMessage : S := %s" % _units(c_string_constant(repo, "src/loop.c", "MULTIPLE_SCALAR_MESSAGE")))
    L.append("")
    L.append("/-- every SQL statement macro of sql.h: (macro name, normalised text) -/")
    L.append("def sql : List (S × S) := [")
    L.append(",\n".join("  (%s, %s)" % (_units(n), _units(s)) for n, s in sql_macros(repo)))
    L.append("]")
    L.append("")
    L.append("/-- expansion of the transaction macros of utils.h -/")
    L.append("def txMacroDefs : List (S × S) := [")
    L.append(",\n".join("  (%s, %s)" % (_units(n), _units(s)) for n, s in tx_macro_defs(repo)))
    L.append("]")
    L.append("")
    L.append("/-- per function of cif.c/container.c/loop.c/pktitr.c: the transaction macros it uses, in source order -/")
    L.append("def txUses : List (S × List S) := [")
    L.append(",\n".join("  (%s, %s)" % (_units(n), lst(_units(u) for u in us)) for n, us in tx_macro_table(repo)))
    L.append("]")
    L.append("")
    L.append("end CifModel.Gen.Schema")
    return "\n".join(L) + "\n"


GENERATORS = {"Schema": gen_Schema}
