"""
translate_writer.py — Gen/WriterConsts.lean: the data of the CIF writer (src/ciffile.c) and of the CIF 1.1 character
check (src/utils.c), re-extracted from the working tree on every run.  Consumed by the link lemmas of
lean/CifModel/Model/Writer.lean (properties C02, C13).
"""
import os, re



def _base():
    # translate.py exec()s this file while it is itself being imported; its helpers (TranslateError, cpp, read, …) are
    # therefore looked up lazily, when a generator runs
    import sys
    for name in ("translate", "__main__"):
        m = sys.modules.get(name)
        if m is not None and hasattr(m, "TranslateError") and hasattr(m, "cpp"):
            return m
    raise RuntimeError("translate.py helpers not available")


class _Lazy:
    def __getattr__(self, k):
        return getattr(_base(), k)


T = _Lazy()


def _define(text, name, where):
    m = re.search(r"^#define[ \t]+%s[ \t]+(.+?)[ \t]*$" % re.escape(name), text, re.M)
    if not m:
        raise T.TranslateError("%s: #define %s not found" % (where, name))
    return m.group(1).strip()


def _int_define(text, name, where):
    v = _define(text, name, where)
    if not re.fullmatch(r"\(?\d+\)?", v):
        raise T.TranslateError("%s: #define %s is not an integer literal: %s" % (where, name, v))
    return int(v.strip("()"))


def _cstring(lit, where):
    m = re.fullmatch(r'"((?:[^"\\]|\\.)*)"', lit.strip())
    if not m:
        raise T.TranslateError("%s: not a string literal: %s" % (where, lit))
    return T.c_unescape(m.group(1))


def _function_body(src, name):
    m = re.search(r"^static\s+int(?:32_t)?\s+%s\s*\([^;{]*\)\s*\{" % re.escape(name), src, re.M)
    if not m:
        raise T.TranslateError("ciffile.c: function %s not found" % name)
    i = m.end()
    depth = 1
    while depth and i < len(src):
        c = src[i]
        if c == '"':
            j = i + 1
            while src[j] != '"':
                j += 2 if src[j] == "\\" else 1
            i = j
        elif c == "'":
            j = i + 1
            while src[j] != "'":
                j += 2 if src[j] == "\\" else 1
            i = j
        elif c == "{":
            depth += 1
        elif c == "}":
            depth -= 1
        i += 1
    return src[m.end():i]


def gen_WriterConsts(repo):
    cifh = T.read(os.path.join(repo, "src", "cif.h"))
    wsrc = T.read(os.path.join(repo, "src", "ciffile.c"))
    line_length = _int_define(cifh, "CIF_LINE_LENGTH", "cif.h")
    prefix = _cstring(_define(wsrc, "PREFIX", "ciffile.c"), "ciffile.c PREFIX")
    prefix_length = _int_define(wsrc, "PREFIX_LENGTH", "ciffile.c")
    window = _int_define(wsrc, "FOLDING_WINDOW", "ciffile.c")
    m = re.search(r"#define\s+LINE_LENGTH\(c\)\s+\(?\s*CIF_LINE_LENGTH\s*\)?", wsrc)
    if not m:
        raise T.TranslateError("ciffile.c: LINE_LENGTH(c) is no longer CIF_LINE_LENGTH")

    # write_text: target_length = LINE_LENGTH(context) - <slack> - (prefix ? PREFIX_LENGTH : 0)
    wt = _function_body(wsrc, "write_text")
    m = re.search(r"int\s+target_length\s*=\s*LINE_LENGTH\(context\)\s*-\s*(\d+)\s*-\s*\(\s*prefix\s*\?\s*PREFIX_LENGTH\s*:\s*0\s*\)\s*;", wt)
    if not m:
        raise T.TranslateError("ciffile.c: write_text: target_length expression not recognised")
    slack = int(m.group(1))
    m = re.search(r'u_fprintf\(CONTEXT_UFILE\(context\),\s*("(?:[^"\\]|\\.)*"),\s*\(prefix\s*\?\s*PREFIX\s*("(?:[^"\\]|\\.)*")\s*:\s*""\),\s*\(fold\s*\?\s*("(?:[^"\\]|\\.)*")\s*:\s*""\)\)', wt)
    if not m:
        raise T.TranslateError("ciffile.c: write_text: opening u_fprintf not recognised")
    text_open_fmt = _cstring(m.group(1), "write_text open")
    prefix_mark = _cstring(m.group(2), "write_text prefix mark")
    fold_mark = _cstring(m.group(3), "write_text fold mark")
    if text_open_fmt != "\n;%s%s":
        raise T.TranslateError("ciffile.c: write_text: opening format is %r" % text_open_fmt)
    m = re.search(r'u_fprintf\(CONTEXT_UFILE\(context\),\s*("(?:[^"\\]|\\.)*")\)\s*!=\s*2', wt)
    if not m:
        raise T.TranslateError("ciffile.c: write_text: closing delimiter not recognised")
    text_close = _cstring(m.group(1), "write_text close")
    m = re.search(r'u_fprintf\(CONTEXT_UFILE\(context\),\s*("(?:[^"\\]|\\.)*"),\s*prefix_text,\s*len,\s*len,\s*tok,', wt)
    if not m or _cstring(m.group(1), "write_text line") != "\n%s%*.*S%s":
        raise T.TranslateError("ciffile.c: write_text: physical-line u_fprintf not recognised")
    m = re.search(r'\(\(tok\[len\]\s*\|\|\s*protect\)\s*\?\s*\(expected\s*\+=\s*1,\s*("(?:[^"\\]|\\.)*")\)\s*:\s*""\)', wt)
    if not m:
        raise T.TranslateError("ciffile.c: write_text: fold separator not recognised")
    fold_sep = _cstring(m.group(1), "write_text fold separator")

    # magic comments
    ws = _function_body(wsrc, "write_cif_start")
    m = re.search(r'IS_CIF1\(context\)\s*\?\s*u_fprintf\(CONTEXT_UFILE\(context\),\s*("(?:[^"\\]|\\.)*")\)\s*:\s*u_fprintf\(CONTEXT_UFILE\(context\),\s*("(?:[^"\\]|\\.)*")\)', ws)
    if not m:
        raise T.TranslateError("ciffile.c: write_cif_start: magic comments not recognised")
    magic1 = _cstring(m.group(1), "magic 1.1")
    magic2 = _cstring(m.group(2), "magic 2.0")

    m = re.search(r'static\s+const\s+char\s+header_type\s*\[2\]\s*\[\d+\]\s*=\s*\{\s*("(?:[^"\\]|\\.)*")\s*,\s*("(?:[^"\\]|\\.)*")\s*\}', wsrc)
    if not m:
        raise T.TranslateError("ciffile.c: header_type not recognised")
    hdr_block = _cstring(m.group(1), "header_type[0]")
    hdr_frame = _cstring(m.group(2), "header_type[1]")
    for h in (hdr_block, hdr_frame):
        if h.count("%S") != 1 or not h.endswith("%S\n"):
            raise T.TranslateError("ciffile.c: header_type format %r not of the form <head>%%S\\n" % h)
    ce = _function_body(wsrc, "write_container_end")
    m = re.search(r'u_fprintf\(CONTEXT_UFILE\(context\),\s*("(?:[^"\\]|\\.)*")\)\s*>\s*6', ce)
    if not m:
        raise T.TranslateError("ciffile.c: write_container_end: frame terminator not recognised")
    frame_end = _cstring(m.group(1), "frame terminator")
    ls = _function_body(wsrc, "write_loop_start")
    m = re.search(r'u_fprintf\(CONTEXT_UFILE\(context\),\s*("(?:[^"\\]|\\.)*")\)\s*>\s*6', ls)
    if not m:
        raise T.TranslateError("ciffile.c: write_loop_start: loop header not recognised")
    loop_head = _cstring(m.group(1), "loop header")
    # item names of a loop header: indented by one blank unless the name fills the line
    m = re.search(r'u_fprintf\(CONTEXT_UFILE\(context\),\s*\(u_countChar32\(\*next_name,\s*-1\)\s*<\s*LINE_LENGTH\(context\)\)\s*\?\s*'
                  r'("(?:[^"\\]|\\.)*")\s*:\s*("(?:[^"\\]|\\.)*"),\s*\*next_name\)', ls)
    if not m or _cstring(m.group(1), "loop name") != " %S\n" or _cstring(m.group(2), "loop name (long)") != "%S\n":
        raise T.TranslateError("ciffile.c: write_loop_start: item-name format not recognised")

    # CIF 1.1 character set (utils.c, after preprocessing) and the size of the lookup table in ciffile.c
    u = T.cpp(repo, "src/utils.c")
    m = re.search(r"const\s+UChar\s+cif11_chars\s*\[\s*\]\s*=\s*\{(.*?)\}\s*;", u, re.S)
    if not m:
        raise T.TranslateError("utils.c: cif11_chars not found")
    items = [x.strip() for x in m.group(1).split(",") if x.strip()]
    chars = []
    for it in items:
        it = it.strip("()")
        try:
            chars.append(int(it, 0))
        except ValueError:
            raise T.TranslateError("utils.c: cif11_chars element %r is not an integer" % it)
    if not chars or chars[-1] != 0:
        raise T.TranslateError("utils.c: cif11_chars is not 0-terminated")
    chars = chars[:-1]
    vf = wsrc[wsrc.find("int cif_validate_cif11_characters"):]
    m = re.search(r"static\s+int\s+is_allowed\s*\[\s*(\d+)\s*\]\s*;", vf)
    if not m:
        raise T.TranslateError("ciffile.c: is_allowed[] not found")
    allowed_size = int(m.group(1))
    m = re.search(r"\*s\s*>=\s*\(\s*sizeof\(is_allowed\)\s*/\s*sizeof\(is_allowed\[0\]\)\s*\)", vf)
    bound_is_elements = bool(m)
    if not bound_is_elements and not re.search(r"\*s\s*>=\s*sizeof\(is_allowed\)", vf):
        raise T.TranslateError("ciffile.c: cif_validate_cif11_characters: bound test not recognised")
    bound = allowed_size if bound_is_elements else allowed_size * 4

    L = [T.HEADER % "src/cif.h (CIF_LINE_LENGTH), src/ciffile.c (writer constants and literal strings), src/utils.c (cif11_chars)",
         "namespace CifModel.Gen.WriterConsts", ""]

    def d(name, val, doc):
        L.append("/-- %s -/" % doc)
        L.append("def %s : Nat := %d" % (name, val))
        L.append("")

    def s(name, val, doc):
        L.append("/-- %s -/" % doc)
        L.append("def %s : List Nat := %s" % (name, T.lean_units(val)))
        L.append("")

    d("lineLength", line_length, "`CIF_LINE_LENGTH` (= `LINE_LENGTH(c)` of ciffile.c)")
    s("prefixUnits", prefix, "`PREFIX`")
    d("prefixLength", prefix_length, "`PREFIX_LENGTH`")
    d("foldingWindow", window, "`FOLDING_WINDOW`")
    d("targetSlack", slack, "the literal subtracted from the line length in `target_length` (write_text)")
    s("prefixMark", prefix_mark, "what follows `PREFIX` on the first line of a prefixed text field")
    s("foldMark", fold_mark, "what ends the first line of a folded text field")
    s("foldSep", fold_sep, "the fold separator / protecting character appended to a physical line")
    s("textClose", text_close, "closing delimiter of a text field, as printed")
    s("magic11", magic1, "first line written in CIF 1.1 mode")
    s("magic20", magic2, "first line written in CIF 2.0 mode")
    s("blockHead", hdr_block[:-3], "`header_type[0]` up to its `%S`")
    s("frameHead", hdr_frame[:-3], "`header_type[1]` up to its `%S`")
    s("frameEnd", frame_end, "save frame terminator, as printed")
    s("loopHead", loop_head, "loop header keyword, as printed")
    s("cif11Chars", "".join(chr(c) for c in chars), "`cif11_chars[]` without its terminator")
    d("isAllowedBound", bound, "units at or above this value are rejected by cif_validate_cif11_characters before the table lookup")
    d("isAllowedSize", allowed_size, "number of elements of `is_allowed[]`")
    L.append("end CifModel.Gen.WriterConsts")
    return "\n".join(L) + "\n"


GENERATORS = {"WriterConsts": gen_WriterConsts}
