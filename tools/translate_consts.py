"""
translate_consts.py — Gen/ParseConsts.lean: the numeric constants of the scanner / file reader that the C08 and C11
models and request generators refer to, re-read from the working tree on every run, plus two facts about the *text*
of get_first_char / get_more_chars / cif_parse that select which variant of the hand-written model describes the code:

  * firstCharFoldsSecondCR : whether get_first_char() converts a CR that it reads as its look-ahead unit (and marks it
    pending).  The tree as repaired so far does not (open finding C08/G1); the proposed repair does.
  * the literal thresholds of the prefer_cif2 cascade in cif_parse (`> 19`, `< 20`, `< 0`, `> 0`, `>= 0`).
"""
import os, re

REPO = os.environ.get("VERIF_REPO", "/repo")


class TranslateError(Exception):
    pass


def _read(p):
    with open(p, encoding="utf-8", errors="replace") as f:
        return f.read()


def _strip_comments(t):
    t = re.sub(r"/\*.*?\*/", " ", t, flags=re.S)
    return re.sub(r"//[^\n]*", " ", t)


def _define(text, name, where):
    m = re.search(r"^[ \t]*#[ \t]*define[ \t]+%s[ \t]+(.+?)[ \t]*$" % re.escape(name), text, re.M)
    if not m:
        raise TranslateError("%s: #define %s not found" % (where, name))
    return m.group(1).strip()


def _eval(expr, env, what):
    e = expr
    for k, v in env.items():
        e = re.sub(r"\b%s\b" % k, str(v), e)
    e = re.sub(r"\b0[xX]([0-9a-fA-F]+)[uUlL]*\b", lambda m: str(int(m.group(1), 16)), e)
    e = re.sub(r"\b(\d+)[uUlL]+\b", r"\1", e)
    if not re.fullmatch(r"[\d\s()+*/-]+", e):
        raise TranslateError("cannot evaluate %s = %s" % (what, expr))
    return int(eval(e, {"__builtins__": {}}))


def function_body(text, name, where):
    """text of the definition `name(...) { ... }` (brace matched), comments already stripped"""
    for m in re.finditer(r"\b%s\s*\([^;{}]*\)\s*\{" % re.escape(name), text):
        i = m.end()
        depth = 1
        while i < len(text) and depth:
            c = text[i]
            depth += (c == "{") - (c == "}")
            i += 1
        if depth == 0:
            return text[m.end():i - 1]
    raise TranslateError("%s: definition of %s() not found" % (where, name))


def c_string_units(lit, where):
    out = []
    i = 0
    while i < len(lit):
        c = lit[i]
        if c == "\\":
            e = lit[i + 1]
            if e == "x":
                m = re.match(r"[0-9a-fA-F]{1,2}", lit[i + 2:])
                out.append(int(m.group(0), 16))
                i += 2 + len(m.group(0))
            elif e == "\\":
                out.append(92)
                i += 2
            else:
                raise TranslateError("%s: unexpected escape \\%s" % (where, e))
        else:
            out.append(ord(c))
            i += 1
    return out


def gen_ParseConsts(repo):
    cifh = _read(os.path.join(repo, "src", "cif.h"))
    parser = _strip_comments(_read(os.path.join(repo, "src", "parser.c")))
    ciffile = _strip_comments(_read(os.path.join(repo, "src", "ciffile.c")))
    valueh = _strip_comments(_read(os.path.join(repo, "src", "internal", "value.h")))
    env = {}
    env["CIF_LINE_LENGTH"] = _eval(_define(cifh, "CIF_LINE_LENGTH", "cif.h"), env, "CIF_LINE_LENGTH")
    c = {}
    c["lineLength"] = env["CIF_LINE_LENGTH"]
    c["bufSizeInitial"] = _eval(_define(parser, "BUF_SIZE_INITIAL", "parser.c"), env, "BUF_SIZE_INITIAL")
    c["bufMinFill"] = _eval(_define(parser, "BUF_MIN_FILL", "parser.c"), env, "BUF_MIN_FILL")
    c["cif1MaxChar"] = _eval(_define(parser, "CIF1_MAX_CHAR", "parser.c"), env, "CIF1_MAX_CHAR")
    c["magicLengthDecoded"] = _eval(_define(parser, "MAGIC_LENGTH", "parser.c"), env, "parser.c MAGIC_LENGTH")
    c["byteBufferSize"] = _eval(_define(ciffile, "BUFFER_SIZE", "ciffile.c"), env, "BUFFER_SIZE")
    c["magicLengthRaw"] = _eval(_define(ciffile, "MAGIC_LENGTH", "ciffile.c"), env, "ciffile.c MAGIC_LENGTH")
    c["magicExtraRaw"] = _eval(_define(ciffile, "MAGIC_EXTRA", "ciffile.c"), env, "MAGIC_EXTRA")
    ciftypes = _strip_comments(_read(os.path.join(repo, "src", "internal", "ciftypes.h")))
    c["charTableMax"] = _eval(_define(ciftypes, "CHAR_TABLE_MAX", "internal/ciftypes.h"), env, "CHAR_TABLE_MAX")
    c["ucharBom"] = _eval(_define(valueh, "UCHAR_BOM", "internal/value.h"), env, "UCHAR_BOM")
    c["ucharNl"] = _eval(_define(valueh, "UCHAR_NL", "internal/value.h"), env, "UCHAR_NL")
    c["ucharCr"] = _eval(_define(valueh, "UCHAR_CR", "internal/value.h"), env, "UCHAR_CR")

    # magic strings
    m = re.search(r"CIF2_UTF8_MAGIC\s*\[[^\]]*\]\s*=\s*\"((?:[^\"\\]|\\.)*)\"", ciffile)
    if not m:
        raise TranslateError("ciffile.c: CIF2_UTF8_MAGIC not found")
    magic_raw = c_string_units(m.group(1), "CIF2_UTF8_MAGIC")
    m = re.search(r"CIF2_MAGIC\s*\[\s*MAGIC_LENGTH\s*\]\s*=\s*\{([^}]*)\}", parser)
    if not m:
        raise TranslateError("parser.c: CIF2_MAGIC not found")
    magic2 = [int(x, 16) for x in re.findall(r"0x([0-9a-fA-F]+)", m.group(1))]
    m = re.search(r"CIF1_MAGIC\s*\[\s*MAGIC_LENGTH\s*\]\s*=\s*\{([^}]*)\}", parser)
    if not m:
        raise TranslateError("parser.c: CIF1_MAGIC not found")
    magic1 = [int(x, 16) for x in re.findall(r"0x([0-9a-fA-F]+)", m.group(1))]
    if len(magic2) != c["magicLengthDecoded"] or len(magic1) != c["magicLengthDecoded"]:
        raise TranslateError("parser.c: magic code initialisers do not have MAGIC_LENGTH elements")

    # which get_first_char is this?
    gfc = function_body(parser, "get_first_char", "parser.c")
    reads = re.findall(r"read_func\s*\(\s*scanner->char_source\s*,\s*([^,]+),\s*([^,]+),", gfc)
    if len(reads) != 2:
        raise TranslateError("get_first_char: expected two read_func calls, found %d" % len(reads))
    look = reads[1][1].strip()
    if look != "1" or reads[0][1].strip() != "1":
        raise TranslateError("get_first_char: a read asks for `%s`/`%s` units; the model assumes exactly 1 and 1"
                             % (reads[0][1].strip(), look))
    folds_second = bool(re.search(r"cr_pending\s*=", gfc))

    if not re.search(r"\(\s*ch\s*>\s*CIF1_MAX_CHAR\s*\)\s*\?\s*\(\s*ch\s*!=\s*UCHAR_BOM\s*\)\s*:\s*\(\s*scanner->char_class\[ch\]\s*==\s*NO_CLASS\s*\)", gfc):
        raise TranslateError("get_first_char: the acceptance test `(ch > CIF1_MAX_CHAR) ? (ch != UCHAR_BOM) : (class == NO_CLASS)` was not found")
    raw_parser = _read(os.path.join(repo, "src", "parser.c"))
    if not re.search(r"\(\(c\s*&\s*0xFFFEu\)\s*==\s*0xFFFEu\)\s*\|\|\s*\(c\s*==\s*UCHAR_BOM\)\s*\|\|\s*\(\(c\s*>=\s*0xFDD0u\)\s*&&\s*\(c\s*<=\s*0xFDEFu\)\)", raw_parser):
        raise TranslateError("SCAN_UCHAR: the test for disallowed characters above CHAR_TABLE_MAX was not found in its known form")
    gmc = function_body(parser, "get_more_chars", "parser.c")
    if not re.search(r"cr_pending\s*=\s*\(\s*fill\s*\[\s*nread\s*-\s*1\s*\]\s*==\s*UCHAR_CR\s*\)", gmc):
        raise TranslateError("get_more_chars: the cr_pending update `fill[nread - 1] == UCHAR_CR` was not found")

    # thresholds of the prefer_cif2 cascade, in textual order
    cp = function_body(ciffile, "cif_parse", "ciffile.c")
    thr = re.findall(r"options->prefer_cif2\s*(>=|<=|>|<)\s*(\d+)", cp)
    thr_txt = ["%s%s" % t for t in thr]

    # which cascade is this?  (findings G4 / G3)
    n_named = len(re.findall(r"encoding_name\s*=\s*options->default_encoding_name\s*;", cp))
    n_null = len(re.findall(r"encoding_name\s*=\s*NULL\s*;", cp))
    if (n_named, n_null) == (1, 1):
        fallback_named = False
    elif (n_named, n_null) == (2, 0):
        fallback_named = True
    else:
        raise TranslateError("cif_parse: %d assignments of default_encoding_name and %d of NULL to encoding_name; the model knows "
                             "(1,1) and (2,0)" % (n_named, n_null))
    m = re.search(r"memcmp\s*\(\s*char_buffer\s*,\s*CIF2_UTF8_MAGIC\s*,\s*MAGIC_LENGTH\s*\+\s*MAGIC_EXTRA\s*\)\s*==\s*0\s*\)(.*?)\{", cp, re.S)
    if not m:
        raise TranslateError("cif_parse: the raw CIF 2.0 magic test was not found")
    magic_ws = bool(re.search(r"char_buffer\s*\[", m.group(1)))
    followers, accepts_end = [], False
    if magic_ws:
        cond = m.group(1)
        for lit in re.findall(r"char_buffer\s*\[\s*MAGIC_LENGTH\s*\+\s*MAGIC_EXTRA\s*\]\s*==\s*(0[xX][0-9a-fA-F]+|\d+|'(?:\\.|[^'])')", cond):
            if lit.startswith("'"):
                body = lit[1:-1]
                val = {"\\n": 10, "\\r": 13, "\\t": 9, " ": 32}.get(body)
                if val is None:
                    raise TranslateError("cif_parse: cannot evaluate the character literal %s in the magic test" % lit)
            else:
                val = int(lit, 0)
            followers.append(val)
        accepts_end = bool(re.search(r"count\s*==\s*\(?\s*MAGIC_LENGTH\s*\+\s*MAGIC_EXTRA", cond))
        n_tests = len(re.findall(r"char_buffer\s*\[", cond))
        if n_tests != len(followers):
            raise TranslateError("cif_parse: %d tests of the byte after the magic code, %d understood" % (n_tests, len(followers)))

    L = ["/-", "  GENERATED by tools/translate_consts.py from /repo's working tree — do not edit.",
         "  Source: src/cif.h, src/parser.c, src/ciffile.c, src/internal/value.h", "-/",
         "namespace CifModel.Gen.ParseConsts", ""]
    for k, v in c.items():
        L.append("def %s : Nat := %d" % (k, v))
    L.append("")
    L.append("/-- `CIF2_UTF8_MAGIC` of ciffile.c (bytes) -/")
    L.append("def magic2Raw : List Nat := [%s]" % ", ".join(map(str, magic_raw)))
    L.append("/-- `CIF2_MAGIC` / `CIF1_MAGIC` of parser.c (code units) -/")
    L.append("def magic2 : List Nat := [%s]" % ", ".join(map(str, magic2)))
    L.append("def magic1 : List Nat := [%s]" % ", ".join(map(str, magic1)))
    L.append("")
    L.append("/-- get_first_char() converts a CR read as its look-ahead unit and marks it pending (the proposed repair of")
    L.append("    finding C08/G1); `false` = the look-ahead unit is left as read -/")
    L.append("def firstCharFoldsSecondCR : Bool := %s" % ("true" if folds_second else "false"))
    L.append("")
    L.append("/-- the last branch of cif_parse()'s cascade passes default_encoding_name to the converter (repair of finding G4);")
    L.append("    `false` = it passes NULL (the system default) -/")
    L.append("def fallbackUsesNamedDefault : Bool := %s" % ("true" if fallback_named else "false"))
    L.append("/-- the raw CIF 2.0 magic test of cif_parse() also inspects the byte after the magic code (repair of finding G3) -/")
    L.append("def rawMagicChecksFollowingByte : Bool := %s" % ("true" if magic_ws else "false"))
    L.append("/-- … the values it accepts for that byte, and whether it accepts the end of the input there -/")
    L.append("def rawMagicFollowers : List Nat := [%s]" % ", ".join(map(str, followers)))
    L.append("def rawMagicAcceptsEnd : Bool := %s" % ("true" if accepts_end else "false"))
    L.append("")
    L.append("/-- comparisons of `options->prefer_cif2` in cif_parse(), in textual order (operator, literal) -/")
    L.append("def preferTests : List (List Nat × Nat) := [%s]" % ", ".join(
        "([%s], %s)" % (", ".join(str(ord(ch)) for ch in op), lit) for op, lit in thr))
    L.append("-- " + " ".join(thr_txt))
    L.append("")
    L.append("end CifModel.Gen.ParseConsts")
    return "\n".join(L) + "\n"


GENERATORS = {"ParseConsts": gen_ParseConsts}
