#!/usr/bin/env python3
"""
gen_storeschema.py — (re)writes lean/CifModel/Model/StoreSchema.lean: the schema / SQL / transaction-macro facts that the store model
ASSUMES, as Lean literals, from the CURRENT sources.  Run BY HAND when the model is updated to follow a change of the sources (the
link theorems in that file then compare these literals with Gen/Schema.lean, which tools/translate_schema.py regenerates on every
check run — so a later change of the sources breaks `decide` there).   usage: python3 tools/gen_storeschema.py [repo]
"""
import os, sys
HERE = os.path.dirname(os.path.abspath(__file__))
ns = {}
exec(open(os.path.join(HERE, "translate_schema.py")).read(), ns)
repo = sys.argv[1] if len(sys.argv) > 1 else os.environ.get("VERIF_REPO", "/repo")
hs = ns['schema_statements_from_h'](repo)
tables = [ns['parse_table'](s) for s in hs if s.startswith('create table ')]
triggers = [ns['parse_trigger'](s) for s in hs if s.startswith('create trigger ')]
others = [s for s in hs if s.startswith('create index ') or s.startswith('create view ')]


def A(s):
    return '(a!"%s")' % s


def U(s):
    return "[" + ", ".join(str(ord(c)) for c in s) + "]"


def T(s):
    return A(s) if ('"' not in s and '\\' not in s) else U(s)


def lst(xs):
    return "[" + ", ".join(xs) + "]"


L = []
L.append('''import CifModel.Gen.Schema
import CifModel.Model.Store
/-
  CifModel.Model.StoreSchema — the facts about the relational schema, the SQL statements and the transaction macros that
  Model/Store.lean and Model/PktItr.lean were written against (literals written by tools/gen_storeschema.py when the model was last
  brought in line with the sources), and the LINK theorems: they equal what tools/translate_schema.py extracts from the CURRENT
  sources (Gen/Schema.lean, regenerated on every run).  A changed key, cascade clause, trigger, trigger message, CHECK, SQL statement
  or transaction macro use in /repo makes `decide` fail here — a broken proof obligation of C04/C05/C06/C17.
-/
namespace CifModel.Store.Assumed
open CifModel.Gen.Schema (Table FK Trigger S)
''')
L.append("def tables : List Table := [")
rows = []
for t in tables:
    fks = lst("{ cols := %s, refTable := %s, refCols := %s, cascade := %s }" % (lst(T(c) for c in f[0]), T(f[1]), lst(T(c) for c in f[2]), "true" if f[3] else "false") for f in t['fks'])
    rows.append("  { name := %s, cols := %s,\n    notNull := %s, pk := %s, autoinc := %s,\n    uniques := %s,\n    fks := %s,\n    checks := %s,\n    defaults := %s }" % (
        T(t['name']), lst(T(c) for c in t['cols']), lst(T(c) for c in t['notnull']), lst(T(c) for c in t['pk']), "true" if t['autoinc'] else "false",
        lst(lst(T(c) for c in u) for u in t['uniques']), fks, lst(T(c) for c in t['checks']), lst("(%s, %s)" % (T(a), T(b)) for a, b in t['defaults'])))
L.append(",\n".join(rows)); L.append("]\n")
L.append("def triggers : List Trigger := [")
rows = []
for t in triggers:
    rows.append("  { name := %s, timing := %s, event := %s, table := %s,\n    whenClause := %s,\n    body := %s,\n    action := %s, msg := %s }" % (
        T(t['name']), T(t['timing']), T(t['event']), T(t['table']), T(t['when']), T(t['body']), T(t['action']), ("some " + T(t['msg'])) if t['msg'] is not None else "none"))
L.append(",\n".join(rows)); L.append("]\n")
L.append("def others : List S := [\n" + ",\n".join("  " + T(s) for s in others) + "\n]\n")
L.append("def sql : List (S × S) := [\n" + ",\n".join("  (%s, %s)" % (T(n), T(s)) for n, s in ns['sql_macros'](repo)) + "\n]\n")
L.append("def txMacroDefs : List (S × S) := [\n" + ",\n".join("  (%s, %s)" % (T(n), T(s)) for n, s in ns['tx_macro_defs'](repo)) + "\n]\n")
L.append("/-- per function: the transaction macros in source order.  The model's bracketing (`Store.nest`: BEGIN_NESTTX, then\n    COMMIT_NESTTX on the success path and ROLLBACK_NESTTX on every failure path; BEGIN … COMMIT / ROLLBACK in set_value,\n    remove_item, create_block/frame; SAVE … RELEASE / ROLLBACK_TO in the iterator) was read off these uses. -/")
L.append("def txUses : List (S × List S) := [\n" + ",\n".join("  (%s, %s)" % (T(n), lst(T(u) for u in us)) for n, us in ns['tx_macro_table'](repo)) + "\n]\n")
L.append('''end CifModel.Store.Assumed

namespace CifModel.Store
open CifModel.Gen

theorem schema_tables_link : Schema.tables = Assumed.tables := by decide +kernel
theorem schema_triggers_link : Schema.triggers = Assumed.triggers := by decide +kernel
theorem schema_others_link : Schema.others = Assumed.others := by decide +kernel
theorem schema_sql_link : Schema.sql = Assumed.sql := by decide +kernel
theorem schema_txmacros_link : Schema.txMacroDefs = Assumed.txMacroDefs := by decide +kernel
/-- the transaction-macro uses per function (C05's path table) -/
theorem C05_paths_link : Schema.txUses = Assumed.txUses := by decide +kernel

/-- the strings the C compares sqlite3_errmsg() with are the messages the triggers raise, and the model uses the same -/
theorem schema_messages_link :
    Schema.scalarErrmsg = scalarErrmsg ∧ Schema.multipleScalarMessage = multipleScalarMessage ∧
    (Schema.triggers.filterMap (·.msg)) = [msgDupScalar, msgDupScalar, msgMultiScalar, msgMultiScalar] ∧
    scalarErrmsg = msgDupScalar ∧ multipleScalarMessage = msgMultiScalar := by decide +kernel

end CifModel.Store
''')
out = os.path.join(os.path.dirname(HERE), "lean", "CifModel", "Model", "StoreSchema.lean")
open(out, "w").write("\n".join(L))
print("wrote", out)
